package sim

import (
	"fmt"
	"os"
	"testing"
)

func TestDbg(t *testing.T) {
	path := os.Getenv("DBG_REPLAY")
	if path == "" {
		t.Skip()
	}
	plan, _ := ReadPlan(path)
	p := Profiles()[plan.Prop]
	var ops []Op
	var crash Op
	for _, op := range plan.Ops {
		if op.Kind == "crash" {
			crash = op
			break
		}
		ops = append(ops, op)
	}
	r := RunSeq(&Plan{Prop: plan.Prop, Seed: plan.Seed, Ops: ops}, p)
	w := r.World
	d := w.Disks[crash.D]
	for i, e := range d.Log {
		if e.Kind == 'W' || e.Kind == 'T' {
			fmt.Printf("log %d %c off=%d len=%d n=%d err=%v op=%d\n", i, e.Kind, e.Off, e.Len, e.N, e.Err, e.Op)
		}
	}
	for _, tl := range w.Files[crash.D].Timeline {
		fmt.Printf("timeline pos=%d stack=%d\n", tl.LogPos, len(tl.Stack))
	}
	base, pos, inflight := imageAt(d, crash.Crash.Writes, crash.Crash.Torn)
	fmt.Printf("base len=%d pos=%d inflight=%v\n", len(base), pos, inflight != nil)
	img, stack := w.CrashImage(crash.D, crash.Crash)
	fmt.Printf("img len=%d stack=%d\n", len(img), len(stack))
	for _, rr := range AllRoots(img) {
		fmt.Printf("root off=%d end=%d json=%s\n", rr.Off, rr.End, rr.JSON)
	}
	fmt.Printf("tail %q\n", img[len(base):])
	fmt.Printf("full %q\n", img)
}
