package sim

import (
	"fmt"
	"runtime"
	"time"

	"github.com/anishathalye/porcupine"
)

func runtimeStack(buf []byte) int { return runtime.Stack(buf, false) }

// Second opinion on the per-key Get/Set/Delete/Exist sub-history: porcupine
// with a register-per-key model, event clock values as timestamps.

type porcIn struct {
	Kind string // get set del exist
	Key  string
	Val  string
}

type porcOut struct {
	Val   string
	Found bool
	Ok    bool
}

var porcModel = porcupine.Model{
	Partition: func(history []porcupine.Operation) [][]porcupine.Operation {
		m := map[string][]porcupine.Operation{}
		var keys []string
		for _, op := range history {
			k := op.Input.(porcIn).Key
			if _, ok := m[k]; !ok {
				keys = append(keys, k)
			}
			m[k] = append(m[k], op)
		}
		res := make([][]porcupine.Operation, 0, len(keys))
		for _, k := range keys {
			res = append(res, m[k])
		}
		return res
	},
	Init: func() interface{} { return "\x00absent" },
	Step: func(state, input, output interface{}) (bool, interface{}) {
		st := state.(string)
		in := input.(porcIn)
		out := output.(porcOut)
		switch in.Kind {
		case "set":
			return true, "v" + in.Val
		case "del":
			present := st != "\x00absent"
			return out.Ok == present, "\x00absent"
		case "get":
			if st == "\x00absent" {
				return !out.Found, st
			}
			return out.Found && "v"+out.Val == st, st
		case "exist":
			return out.Found == (st != "\x00absent"), st
		}
		return true, st
	},
	DescribeOperation: func(input, output interface{}) string {
		return fmt.Sprintf("%v -> %v", input, output)
	},
}

// porcupineCheck returns "" when linearizable or inconclusive.
func (c *conRun) porcupineCheck() (verdict string, n int) {
	var ops []porcupine.Operation
	initial := map[string]bool{}
	id := 0
	add := func(ev *Ev, client int) {
		if ev.Err != "" || ev.Panic != "" {
			return
		}
		k := ev.Op.C + "\x00" + string(ev.Op.key())
		var in porcIn
		var out porcOut
		switch ev.Op.Kind {
		case "set", "setitem":
			in = porcIn{Kind: "set", Key: k, Val: string(ev.Op.Val.Bytes())}
		case "del":
			in = porcIn{Kind: "del", Key: k}
			out.Ok = ev.Ok
		case "get":
			in = porcIn{Kind: "get", Key: k}
			out.Found = ev.Found
			out.Val = string(ev.Val)
		case "exist":
			in = porcIn{Kind: "exist", Key: k}
			out.Found = ev.Found
		default:
			return
		}
		// the pre-loaded content: one write per key before everything else
		if !initial[k] {
			initial[k] = true
			if mc := c.h.M.Colls[ev.Op.C]; mc != nil {
				if it, ok := mc.Get(ev.Op.key()); ok {
					id++
					ops = append(ops, porcupine.Operation{ClientId: 0, Input: porcIn{Kind: "set", Key: k, Val: string(it.V)}, Call: -2, Output: porcOut{}, Return: -1})
				}
			}
		}
		ops = append(ops, porcupine.Operation{ClientId: client, Input: in, Call: int64(ev.Inv), Output: out, Return: int64(ev.Ret)})
	}
	clients := map[string]int{}
	for _, ev := range c.evs {
		cl, ok := clients[ev.Task]
		if !ok {
			cl = len(clients) + 1
			clients[ev.Task] = cl
		}
		add(ev, cl)
		if ev.Op.Kind == "iter" {
			for _, sub := range ev.Subs {
				add(sub, cl)
			}
		}
	}
	if len(ops) == 0 {
		return "", 0
	}
	res := porcupine.CheckOperationsTimeout(porcModel, ops, 5*time.Second)
	switch res {
	case porcupine.Illegal:
		return "illegal", len(ops)
	case porcupine.Unknown:
		return "unknown", len(ops)
	}
	return "", len(ops)
}
