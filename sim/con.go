package sim

import (
	"bytes"
	"fmt"
	"sort"
	"strings"

	"github.com/cbehopkins/gkvlite"
)

// Concurrent engine (C05, C18): one mutator, one flusher, N readers on one
// store, every goroutine under the token-passing scheduler.

// ConOp is one operation of a task in the concurrent phase.
type ConOp struct {
	Kind   string   `json:"k"`
	C      string   `json:"c,omitempty"`
	Key    []byte   `json:"key,omitempty"`
	KeyNil bool     `json:"keynil,omitempty"`
	Val    *ValSpec `json:"val,omitempty"`
	Prio   int32    `json:"p,omitempty"`
	WV     bool     `json:"wv,omitempty"`
	Desc   bool     `json:"desc,omitempty"`
	Stop   int      `json:"stop,omitempty"`
	N      int      `json:"n,omitempty"`
	Script string   `json:"script,omitempty"`
	Sub    []ConOp  `json:"sub,omitempty"` // reads through a snapshot; ops between Next calls
}

type ConTask struct {
	Name   string  `json:"name"`
	Role   string  `json:"role"` // mutator | flusher | reader
	Weight float64 `json:"weight"`
	Ops    []ConOp `json:"ops"`
}

// ConPlan is the concurrent part of a plan.
type ConPlan struct {
	Setup  []Op      `json:"setup"`
	Tasks  []ConTask `json:"tasks"`
	Armed  []string  `json:"armed"`
	Stay   float64   `json:"stay"`
	Serial bool      `json:"serial,omitempty"`
	// Quiet (C15 under schedules): nothing supersedes a version during the
	// concurrent phase, so the end balance of the references can be judged
	// exactly (no known finding F12 in play).
	Quiet bool `json:"quiet,omitempty"`
}

// Ev is one recorded operation of the history.
type Ev struct {
	Task   string
	Idx    int
	Op     ConOp
	Inv    int
	Ret    int
	Err    string
	Found  bool
	Val    []byte
	Prio   int32
	Ok     bool
	N, B   uint64
	Items  []MItem
	Depths []uint64
	Snap   map[string][]*Ev // snapshot: sub reads per collection
	Subs   []*Ev
	Panic  string
	Img    []byte // flush: image when the call returned
	End    int64
	NextOK []bool
	// the harness did not execute the operation (its collection does not
	// exist in this, possibly shrunk, plan): no checker looks at it
	Skipped bool
}

func (o ConOp) key() []byte {
	if o.KeyNil {
		return nil
	}
	if o.Key == nil {
		return []byte{}
	}
	return cloneBytes(o.Key)
}

func (o ConOp) String() string {
	var sb strings.Builder
	fmt.Fprintf(&sb, "%s(", o.Kind)
	if o.C != "" || o.Kind != "flush" {
		fmt.Fprintf(&sb, "c=%q", o.C)
	}
	if o.Key != nil {
		fmt.Fprintf(&sb, " key=%s", showBytes(o.Key))
	}
	if o.Val != nil {
		fmt.Fprintf(&sb, " val=%s/%d", o.Val.Tag, o.Val.Len)
	}
	if o.Kind == "setitem" {
		fmt.Fprintf(&sb, " prio=%d", o.Prio)
	}
	if o.WV {
		sb.WriteString(" wv")
	}
	if o.Desc {
		sb.WriteString(" desc")
	}
	if o.Stop != 0 {
		fmt.Fprintf(&sb, " stop=%d", o.Stop)
	}
	if o.Script != "" {
		fmt.Fprintf(&sb, " script=%s", o.Script)
	}
	for _, s := range o.Sub {
		sb.WriteString(" {" + s.String() + "}")
	}
	sb.WriteString(")")
	return sb.String()
}

type conRun struct {
	w     *World
	s     *Sched
	h     *StoreH
	evs   []*Ev
	prop  string
	viol  *Violation
	tasks []ConTask
	copies int
}

func (c *conRun) fail(oracle, kind, format string, a ...interface{}) {
	if c.viol == nil {
		c.viol = &Violation{Prop: c.prop, Oracle: oracle, OpKind: kind, Msg: fmt.Sprintf(format, a...)}
	}
}

// call runs f and records a panic in the event.
func (c *conRun) call(ev *Ev, f func()) {
	defer func() {
		if r := recover(); r != nil {
			ev.Panic = fmt.Sprintf("%v\n%s", r, trimStack(stackNow()))
		}
	}()
	f()
}

func stackNow() string {
	buf := make([]byte, 1<<14)
	n := runtimeStack(buf)
	return string(buf[:n])
}

// execOne runs one operation against store/collection getter and fills ev.
func (c *conRun) execOne(store *gkvlite.Store, op ConOp, ev *Ev) {
	c.s.SetOp(op.Kind, op.WV)
	coll := func() *gkvlite.Collection { return store.GetCollection(op.C) }
	switch op.Kind {
	case "snapshot", "flush", "copyto", "setcoll", "rmcoll":
	default:
		if coll() == nil {
			// a shrunk plan may have lost the operation that created the
			// collection: skip, do not dereference a nil handle
			ev.Err = "harness: no such collection"
			ev.Skipped = true
			return
		}
	}
	switch op.Kind {
	case "setitem":
		it := &gkvlite.Item{Key: op.key(), Val: op.Val.Bytes(), Priority: op.Prio}
		c.call(ev, func() {
			if err := coll().SetItem(it); err != nil {
				ev.Err = err.Error()
			}
		})
	case "set":
		c.call(ev, func() {
			if err := coll().Set(op.key(), op.Val.Bytes()); err != nil {
				ev.Err = err.Error()
			}
		})
	case "del":
		c.call(ev, func() {
			ok, err := coll().Delete(op.key())
			ev.Ok = ok
			if err != nil {
				ev.Err = err.Error()
			}
		})
	case "evict":
		c.call(ev, func() {
			for i := 0; i < max(1, op.N); i++ {
				coll().EvictSomeItems()
			}
		})
	case "allocstats":
		// read-only, package-wide: takes all three free-list locks
		c.call(ev, func() {
			if op.N%2 == 1 {
				// read-only as well, and it pins a version
				if _, err := coll().MarshalJSON(); err != nil {
					ev.Err = err.Error()
				}
				return
			}
			_ = coll().AllocStats()
		})
	case "setcoll":
		// the mutator re-registers a collection nobody else uses
		c.call(ev, func() {
			if store.SetCollection(op.C, nil) == nil {
				ev.Err = "SetCollection returned nil"
			}
		})
		c.w.probe("concurrent-setcollection-on-existing-name")
	case "rmcoll":
		c.call(ev, func() { store.RemoveCollection(op.C) })
		c.w.probe("concurrent-removecollection")
	case "write":
		c.call(ev, func() {
			if err := coll().Write(); err != nil {
				ev.Err = err.Error()
			}
		})
	case "flush":
		c.call(ev, func() {
			if err := store.Flush(); err != nil {
				ev.Err = err.Error()
			}
		})
	case "get":
		c.call(ev, func() {
			v, err := coll().Get(op.key())
			if err != nil {
				ev.Err = err.Error()
			}
			ev.Found = v != nil
			ev.Val = cloneBytes(v)
		})
	case "getitem", "min", "max":
		c.call(ev, func() {
			var it *gkvlite.Item
			var err error
			switch op.Kind {
			case "getitem":
				it, err = coll().GetItem(op.key(), op.WV)
			case "min":
				it, err = coll().MinItem(op.WV)
			default:
				it, err = coll().MaxItem(op.WV)
			}
			if err != nil {
				ev.Err = err.Error()
			}
			if it != nil {
				ev.Found = true
				ev.Items = []MItem{{K: cloneBytes(it.Key), V: cloneBytes(it.Val), P: it.Priority}}
				if c.h.CB&CBRef != 0 {
					// the caller owns one reference on a returned item
					c.w.Ledger.Harness[it]++
				}
			}
		})
	case "exist":
		c.call(ev, func() { ev.Found = coll().Exist(op.key()) })
	case "totals":
		c.call(ev, func() {
			n, b, err := coll().GetTotals()
			ev.N, ev.B = n, b
			if err != nil {
				ev.Err = err.Error()
			}
		})
	case "len":
		c.call(ev, func() {
			n, err := coll().Len()
			ev.N = uint64(n)
			if err != nil {
				ev.Err = err.Error()
			}
		})
	case "visit":
		c.call(ev, func() {
			calls := 0
			v := func(i *gkvlite.Item, depth uint64) bool {
				c.s.Yield("visitor")
				calls++
				ev.Items = append(ev.Items, MItem{K: cloneBytes(i.Key), V: cloneBytes(i.Val), P: i.Priority})
				ev.Depths = append(ev.Depths, depth)
				return !(op.Stop > 0 && calls >= op.Stop)
			}
			var err error
			if op.Desc {
				err = coll().VisitItemsDescendEx(op.key(), op.WV, v)
			} else {
				err = coll().VisitItemsAscendEx(op.key(), op.WV, v)
			}
			if err != nil {
				ev.Err = err.Error()
			}
		})
	case "iter":
		c.call(ev, func() {
			var it gkvlite.ItemIterator
			if op.Desc {
				it = coll().IterateDescend(op.key(), op.WV)
			} else {
				it = coll().IterateAscend(op.key(), op.WV)
			}
			script := op.Script
			if script == "" {
				script = "c"
			}
			si := 0
			for _, ch := range script {
				switch ch {
				case 'n':
					ok := it.Next()
					ev.NextOK = append(ev.NextOK, ok)
					if ok {
						r := it.Result()
						if r == nil {
							ev.Items = append(ev.Items, MItem{})
						} else {
							ev.Items = append(ev.Items, MItem{K: cloneBytes(r.Key), V: cloneBytes(r.Val), P: r.Priority})
						}
					}
					c.s.Yield("op-iter-next")
					// operations of the same task between Next calls
					if si < len(op.Sub) && ok {
						sub := &Ev{Task: ev.Task, Idx: ev.Idx, Op: op.Sub[si]}
						si++
						sub.Inv = c.s.Tick()
						c.execOne(store, sub.Op, sub)
						sub.Ret = c.s.Tick()
						if !sub.Skipped {
							ev.Subs = append(ev.Subs, sub)
						}
					}
				case 'c':
					it.Close()
					c.s.Yield("op-iter-close")
				}
			}
			it.Close()
			c.s.Yield("op-iter-close")
			if err := it.Err(); err != nil {
				ev.Err = err.Error()
			}
		})
	case "copyto":
		// CopyTo is a read-only operation on its source (README); used on snapshots
		c.call(ev, func() {
			c.copies++
			dd := NewSimDisk(100+c.copies, c.w.Env)
			dst, err := store.CopyTo(dd, op.N)
			if err != nil {
				ev.Err = err.Error()
				return
			}
			st, err := ReadStoreState(dst, c.w.cmpOfStore(c.h))
			if err != nil {
				ev.Err = "reading the copy: " + err.Error()
				return
			}
			for _, name := range st.Names() {
				ev.Subs = append(ev.Subs, &Ev{Task: ev.Task, Idx: ev.Idx, Op: ConOp{Kind: "all", C: name}, Items: st.Colls[name].Items})
			}
			dst.Close()
			c.w.probe("concurrent-copyto-from-snapshot")
		})
	case "snapshot":
		c.call(ev, func() {
			inv := c.s.Tick()
			snap := store.Snapshot()
			ret := c.s.Tick()
			ev.Inv, ev.Ret = inv, ret
			for i := range op.Sub {
				c.s.Yield("op-snapread")
				sub := &Ev{Task: ev.Task, Idx: ev.Idx, Op: op.Sub[i]}
				sub.Inv = c.s.Tick()
				c.execOne(snap, sub.Op, sub)
				sub.Ret = c.s.Tick()
				if sub.Op.Kind == "copyto" {
					// one synthetic whole-collection read per collection of the copy
					if sub.Err != "" || sub.Panic != "" {
						ev.Subs = append(ev.Subs, &Ev{Task: ev.Task, Idx: ev.Idx, Op: ConOp{Kind: "all", C: c.h.M.Names()[0]}, Err: "CopyTo from the snapshot: " + sub.Err + sub.Panic, Inv: sub.Inv, Ret: sub.Ret})
					}
					for _, s2 := range sub.Subs {
						s2.Inv, s2.Ret = sub.Inv, sub.Ret
						ev.Subs = append(ev.Subs, s2)
					}
					continue
				}
				if !sub.Skipped {
					ev.Subs = append(ev.Subs, sub)
				}
			}
			c.s.Yield("op-snapclose")
			snap.Close()
		})
	}
}

// RunCon executes a concurrent plan.  quiesce is synctest.Wait.
func RunCon(plan *Plan, cp *ConPlan, prop string) (*RunResult, *conRun) {
	resetGlobals(plan.Seed)
	w := NewWorld(prop)
	p := Profiles()["CON"]
	if prop == "C19" {
		p.CheckReads = true
	}
	applyProfile(w, p)
	w.PanicsAlways = true
	res := &RunResult{Plan: plan, World: w}
	CurWorld.Store(w)
	// sequential setup with the ordinary interpreter (model kept)
	for i, op := range cp.Setup {
		w.Trace = append(w.Trace, op)
		w.Exec(i, op)
		if w.Viol != nil {
			res.Viol = w.Viol
			res.Stats = w.Stats
			return res, nil
		}
	}
	h := w.usable(0)
	if h == nil {
		res.Stats = w.Stats
		return res, nil
	}
	rng := NewRng(Mix(plan.Seed, 0x5c4ed))
	s := NewSched(rng)
	s.Wait = Quiesce
	if plan.FixedSched {
		s.Replay = plan.Sched
		if s.Replay == nil {
			s.Replay = []string{}
		}
	}
	s.serial = cp.Serial
	s.weights["stay"] = cp.Stay
	if cp.Stay <= 0 {
		s.weights["stay"] = 1
	}
	for _, a := range cp.Armed {
		s.Armed[a] = true
	}
	c := &conRun{w: w, s: s, h: h, prop: prop, tasks: cp.Tasks}
	w.Yield = s.Yield
	w.Env.Yield = s.Yield
	if prop == "C19" {
		w.OpOf = s.OpOf
	}
	gkvlite.VerifYield = func(site int) { s.Yield("hook-" + gkvlite.VerifSiteNames[site]) }
	s.LockName = gkvlite.VerifLockName
	gkvlite.VerifLockHook = s.LockEvent
	defer func() { gkvlite.VerifYield = nil; gkvlite.VerifLockHook = nil; w.Yield = nil; w.Env.Yield = nil }()
	for ti := range cp.Tasks {
		t := cp.Tasks[ti]
		s.Go(t.Name, t.Weight, func() {
			for i, op := range t.Ops {
				s.Yield("op-" + op.Kind)
				ev := &Ev{Task: t.Name, Idx: i, Op: op}
				ev.Inv = s.Tick()
				c.execOne(h.S, op, ev)
				if op.Kind == "flush" && ev.Err == "" && ev.Panic == "" && h.Disk >= 0 {
					// image and end of this flush's root record, taken before
					// anybody else runs
					d := w.Disks[h.Disk]
					ev.Img = append([]byte(nil), d.Image()...)
					if rec := FindLastRoot(ev.Img, int64(len(ev.Img))); rec != nil {
						ev.End = rec.End
						if w.CheckReads {
							w.indexValueRanges(h.Disk, rec.End)
						}
					}
				}
				if op.Kind != "snapshot" {
					ev.Ret = s.Tick()
				}
				if !ev.Skipped {
					s.mu.Lock()
					c.evs = append(c.evs, ev)
					s.mu.Unlock()
				}
				Progress.Add(1)
			}
		})
	}
	s.Run()
	res.Stats = w.Stats
	res.Stats.Steps += s.steps
	res.Fired = w.Env.Fired
	res.IOCounts = w.Env.Counts
	for k, v := range s.SiteHits {
		w.Stats.Probes["site-"+k] += v
	}
	w.Stats.Probes["context-switches"] += s.Switches
	plan.Sched = append([]string(nil), s.Log...)
	if s.Deadlock != "" {
		c.fail("deadlock", "run", "%s", s.Deadlock)
		// the goroutines of this run stay parked for ever, possibly holding
		// package-global locks
		gkvlite.VerifAbandonLocks()
	}
	return res, c
}

func itemsEq(a, b []MItem, withVal bool) bool {
	if len(a) != len(b) {
		return false
	}
	for i := range a {
		if !bytes.Equal(a[i].K, b[i].K) {
			return false
		}
		if b[i].P != PrioUnknown && a[i].P != b[i].P {
			return false
		}
		if withVal {
			if a[i].V == nil || !bytes.Equal(a[i].V, b[i].V) {
				return false
			}
		} else if a[i].V != nil && !bytes.Equal(a[i].V, b[i].V) {
			return false
		}
	}
	return true
}

// ---------------------------------------------------------------------------
// History checking

type version struct {
	st  *MColl
	inv int // invocation of the mutation that produced it (0 for the initial one)
	ret int
}

type history struct {
	vers map[string][]version // per collection
}

// buildVersions replays the mutator's successful mutations on the model.
func (c *conRun) buildVersions() *history {
	hi := &history{vers: map[string][]version{}}
	for name, mc := range c.h.M.Colls {
		hi.vers[name] = []version{{st: mc, inv: 0, ret: 0}}
	}
	var muts []*Ev
	for _, ev := range c.evs {
		collect := func(e *Ev) {
			switch e.Op.Kind {
			case "setitem", "set", "del", "setcoll", "rmcoll":
				muts = append(muts, e)
			}
		}
		collect(ev)
		for _, sub := range ev.Subs {
			collect(sub)
		}
	}
	sort.Slice(muts, func(i, j int) bool { return muts[i].Inv < muts[j].Inv })
	for _, ev := range muts {
		vs := hi.vers[ev.Op.C]
		if len(vs) == 0 {
			continue
		}
		cur := vs[len(vs)-1].st
		if ev.Panic != "" {
			continue
		}
		switch ev.Op.Kind {
		case "rmcoll":
			// the collection does not exist any more: a version without state
			if cur != nil {
				hi.vers[ev.Op.C] = append(vs, version{st: nil, inv: ev.Inv, ret: ev.Ret})
			}
			continue
		case "setcoll":
			// on an existing name the contents stay; after a removal the
			// name denotes a new, empty collection
			if cur == nil {
				hi.vers[ev.Op.C] = append(vs, version{st: &MColl{}, inv: ev.Inv, ret: ev.Ret})
			}
			continue
		}
		if cur == nil {
			continue
		}
		switch ev.Op.Kind {
		case "setitem", "set":
			if ev.Err != "" {
				c.fail("mutation-error", ev.Op.Kind, "task %s: %s failed although no other mutator exists: %s", ev.Task, ev.Op.String(), ev.Err)
				continue
			}
			prio := ev.Op.Prio
			if ev.Op.Kind == "set" {
				prio = PrioUnknown
			}
			hi.vers[ev.Op.C] = append(vs, version{st: cur.Set(MItem{K: ev.Op.key(), V: ev.Op.Val.Bytes(), P: prio}), inv: ev.Inv, ret: ev.Ret})
		case "del":
			if ev.Err != "" {
				c.fail("mutation-error", ev.Op.Kind, "task %s: %s failed although no other mutator exists: %s", ev.Task, ev.Op.String(), ev.Err)
				continue
			}
			n, was := cur.Delete(ev.Op.key())
			if was != ev.Ok {
				c.fail("lost-update", "del", "task %s: %s returned %v but the key's presence after all earlier mutations is %v", ev.Task, ev.Op.String(), ev.Ok, was)
			}
			if was {
				hi.vers[ev.Op.C] = append(vs, version{st: n, inv: ev.Inv, ret: ev.Ret})
			}
		}
	}
	return hi
}

// window returns the version indexes that could have been current at some
// instant of [inv, ret].
func (hi *history) window(coll string, inv, ret int) (lo, hiIdx int) {
	vs := hi.vers[coll]
	lo = 0
	for i, v := range vs {
		if i > 0 && v.ret < inv {
			lo = i
		}
	}
	hiIdx = 0
	for i, v := range vs {
		if i == 0 || v.inv < ret {
			hiIdx = i
		}
	}
	return
}

// matches reports whether a read observation equals version v.
func evMatches(ev *Ev, v *MColl) bool {
	if v == nil {
		return false // the collection did not exist in that version
	}
	op := ev.Op
	switch op.Kind {
	case "get":
		it, ok := v.Get(op.key())
		if !ok {
			return !ev.Found
		}
		return ev.Found && bytes.Equal(ev.Val, it.V)
	case "exist":
		_, ok := v.Get(op.key())
		return ok == ev.Found
	case "getitem":
		it, ok := v.Get(op.key())
		if !ok {
			return !ev.Found
		}
		return ev.Found && itemsEq(ev.Items, []MItem{it}, op.WV)
	case "min", "max":
		if len(v.Items) == 0 {
			return !ev.Found
		}
		want := v.Items[0]
		if op.Kind == "max" {
			want = v.Items[len(v.Items)-1]
		}
		return ev.Found && itemsEq(ev.Items, []MItem{want}, op.WV)
	case "all":
		return itemsEq(ev.Items, v.Items, true)
	case "totals":
		n, b := v.Totals()
		return ev.N == n && ev.B == b
	case "len":
		return ev.N == uint64(len(v.Items))
	case "visit":
		var want []MItem
		if op.Desc {
			want = v.Descend(op.key())
		} else {
			want = v.Ascend(op.key())
		}
		if op.Stop > 0 && len(want) > op.Stop {
			want = want[:op.Stop]
		}
		return itemsEq(ev.Items, want, op.WV)
	case "iter":
		var want []MItem
		if op.Desc {
			want = v.Descend(op.key())
		} else {
			want = v.Ascend(op.key())
		}
		if len(ev.Items) > len(want) {
			return false
		}
		if !itemsEq(ev.Items, want[:len(ev.Items)], op.WV) {
			return false
		}
		// every Next before Close/exhaustion must have delivered
		return true
	}
	return true
}

func isRead(kind string) bool {
	switch kind {
	case "get", "exist", "getitem", "min", "max", "totals", "len", "visit", "iter", "all":
		return true
	}
	return false
}

func describeObs(ev *Ev) string {
	switch ev.Op.Kind {
	case "get":
		if !ev.Found {
			return "nil"
		}
		return showBytes(ev.Val)
	case "exist":
		return fmt.Sprint(ev.Found)
	case "totals", "len":
		return fmt.Sprintf("(%d, %d)", ev.N, ev.B)
	}
	var ks []string
	for _, it := range ev.Items {
		ks = append(ks, fmt.Sprintf("%s=%s", showBytes(it.K), showBytes(it.V)))
	}
	if !ev.Found && len(ev.Items) == 0 && (ev.Op.Kind == "getitem" || ev.Op.Kind == "min" || ev.Op.Kind == "max") {
		return "nil"
	}
	return "[" + strings.Join(ks, " ") + "]"
}

// checkHistory evaluates the recorded history (oracles 1, 2 of C05 and the
// iterator clauses of C18).
func (c *conRun) checkHistory() *history {
	for _, ev := range c.evs {
		if ev.Panic != "" {
			c.fail("panic", ev.Op.Kind, "task %s: %s panicked: %s", ev.Task, ev.Op.String(), ev.Panic)
			return nil
		}
		for _, sub := range ev.Subs {
			if sub.Panic != "" {
				c.fail("panic", sub.Op.Kind, "task %s: %s (inside %s) panicked: %s", ev.Task, sub.Op.String(), ev.Op.Kind, sub.Panic)
				return nil
			}
		}
	}
	hi := c.buildVersions()
	if c.viol != nil {
		return hi
	}
	checkRead := func(ev *Ev, what string) {
		if !isRead(ev.Op.Kind) || c.viol != nil {
			return
		}
		if ev.Err != "" {
			c.fail("read-error", ev.Op.Kind, "task %s: %s%s returned an error without any file fault: %s", ev.Task, ev.Op.String(), what, ev.Err)
			return
		}
		vs := hi.vers[ev.Op.C]
		if len(vs) == 0 {
			return
		}
		lo, up := hi.window(ev.Op.C, ev.Inv, ev.Ret)
		for i := lo; i <= up; i++ {
			if evMatches(ev, vs[i].st) {
				if up > lo {
					c.w.probe("read-window-spans-publication")
				}
				return
			}
		}
		c.fail("single-version", ev.Op.Kind, "task %s: %s%s during clock [%d,%d] observed %s, which is not the content of any single version current in that window (versions %d..%d of %q)",
			ev.Task, ev.Op.String(), what, ev.Inv, ev.Ret, describeObs(ev), lo, up, ev.Op.C)
	}
	for _, ev := range c.evs {
		switch ev.Op.Kind {
		case "snapshot":
			// one version per collection inside the Snapshot() call's
			// window; every read through the snapshot sees that version
			cands := map[string][]int{}
			for _, sub := range ev.Subs {
				if !isRead(sub.Op.Kind) || c.viol != nil {
					continue
				}
				if sub.Err != "" {
					c.fail("read-error", sub.Op.Kind, "task %s: snapshot read %s returned an error: %s", ev.Task, sub.Op.String(), sub.Err)
					break
				}
				vs := hi.vers[sub.Op.C]
				if len(vs) == 0 {
					continue
				}
				cs, ok := cands[sub.Op.C]
				if !ok {
					lo, up := hi.window(sub.Op.C, ev.Inv, ev.Ret)
					for i := lo; i <= up; i++ {
						cs = append(cs, i)
					}
				}
				var keep []int
				for _, i := range cs {
					if evMatches(sub, vs[i].st) {
						keep = append(keep, i)
					}
				}
				if len(keep) == 0 {
					c.fail("snapshot-version", sub.Op.Kind, "task %s: read %s through a snapshot taken during clock [%d,%d] observed %s: no single version of %q current during Snapshot() is consistent with all reads of this snapshot so far",
						ev.Task, sub.Op.String(), ev.Inv, ev.Ret, describeObs(sub), sub.Op.C)
					break
				}
				cands[sub.Op.C] = keep
				c.w.probe("snapshot-read-checked")
			}
		case "iter":
			checkRead(ev, "")
			c.checkIterClauses(ev, hi)
			for _, sub := range ev.Subs {
				checkRead(sub, " (between Next calls)")
			}
		default:
			checkRead(ev, "")
		}
		if c.viol != nil {
			return hi
		}
	}
	return hi
}

// checkIterClauses: Next() after Close()/exhaustion is false; Next() before
// that delivers (C18).
func (c *conRun) checkIterClauses(ev *Ev, hi *history) {
	if c.viol != nil || ev.Err != "" {
		return
	}
	script := ev.Op.Script
	done := false
	ni := 0
	delivered := 0
	for _, ch := range script {
		switch ch {
		case 'c':
			done = true
		case 'n':
			if ni >= len(ev.NextOK) {
				return
			}
			ok := ev.NextOK[ni]
			ni++
			if done && ok {
				c.fail("iter-after-end", "iter", "task %s: %s: Next() call %d returned true after Close()/exhaustion", ev.Task, ev.Op.String(), ni)
				return
			}
			if !done {
				if ok {
					delivered++
				} else {
					done = true
					// exhaustion: some version in the window must have exactly `delivered` items in range
					vs := hi.vers[ev.Op.C]
					lo, up := hi.window(ev.Op.C, ev.Inv, ev.Ret)
					okv := false
					for i := lo; i <= up && i < len(vs); i++ {
						var want []MItem
						if ev.Op.Desc {
							want = vs[i].st.Descend(ev.Op.key())
						} else {
							want = vs[i].st.Ascend(ev.Op.key())
						}
						if len(want) == delivered && itemsEq(ev.Items[:delivered], want, ev.Op.WV) {
							okv = true
						}
					}
					if !okv && len(vs) > 0 {
						c.fail("iter-short", "iter", "task %s: %s: Next() returned false after %d items although no version current during the iteration has exactly those items in range", ev.Task, ev.Op.String(), delivered)
						return
					}
				}
			}
		}
	}
}

// checkFlushes: oracle 3 of C05.
func (c *conRun) checkFlushes(hi *history) {
	if c.viol != nil || hi == nil || c.h.Disk < 0 {
		return
	}
	names := c.h.M.Names()
	cmpOf := c.w.cmpOfStore(c.h)
	for _, ev := range c.evs {
		if ev.Op.Kind != "flush" || c.viol != nil {
			continue
		}
		if ev.Err != "" {
			c.fail("flush-error", "flush", "task %s: Flush returned an error without any file fault: %s", ev.Task, ev.Err)
			return
		}
		c.w.Stats.Flushes++
		dec := Decode(ev.Img, int64(len(ev.Img)), cmpOf)
		if dec == nil || dec.Rec.End != int64(len(ev.Img)) && dec.Rec.End != ev.End {
			c.fail("flush-decode", "flush", "task %s: after Flush returned nil the file does not end in a decodable root record", ev.Task)
			return
		}
		if p := dec.Problems(); len(p) > 0 {
			c.fail("flush-layout", "flush", "task %s: flushed file violates the layout: %s", ev.Task, p[0])
			return
		}
		st, err := ReadImageState(ev.Img, cmpOf)
		if err != nil {
			c.fail("flush-reopen", "flush", "task %s: the file as it was when Flush returned cannot be re-opened: %v", ev.Task, err)
			return
		}
		if d := stateDiff(st, dec.State(cmpOf)); d != "" {
			c.fail("flush-reopen", "flush", "task %s: NewStore and the independent decoder disagree on the flushed file: %s", ev.Task, d)
			return
		}
		// greedy earliest instants t1 <= t2 <= ... in name order
		t := ev.Inv
		for _, name := range names {
			dc := dec.Colls[name]
			vs := hi.vers[name]
			everAbsent := false
			for _, v := range vs {
				if v.st == nil {
					everAbsent = true
				}
			}
			if dc == nil && !everAbsent {
				c.fail("flush-names", "flush", "task %s: collection %q missing from the flushed root record", ev.Task, name)
				return
			}
			best := -1
			bestT := 0
			for j, v := range vs {
				if (dc == nil) != (v.st == nil) {
					continue
				}
				if dc != nil && !EqualItems(dc.Items, v.st.Items, true) {
					continue
				}
				// version j may be current from inv_j (0 for the initial one) until ret_{j+1}
				from := v.inv
				until := ev.Ret
				if j+1 < len(vs) && vs[j+1].ret < until {
					until = vs[j+1].ret
				}
				tt := t
				if from > tt {
					tt = from
				}
				if dc == nil {
					// Which collections exist is decided by the collection map
					// Flush fetches once, before it pins anything: "absent" is
					// not a version captured in name order, it only has to have
					// been the case at some instant of the Flush.
					if from <= ev.Ret && until >= ev.Inv && best < 0 {
						best, bestT = j, t
					}
					continue
				}
				if tt <= until && (best < 0 || tt < bestT) {
					best, bestT = j, tt
				}
			}
			if best < 0 {
				c.fail("flush-version-order", "flush", "task %s: Flush during clock [%d,%d] persisted collection %q in a state that was not current at any instant of the flush at or after the instant at which the earlier-named collections were captured (clock >= %d)",
					ev.Task, ev.Inv, ev.Ret, name, t)
				return
			}
			t = bestT
		}
		c.w.probe("concurrent-flush-checked")
	}
}

// checkCrashSamples: oracle 4 of C05: images at sampled log positions are
// read identically by NewStore and by the decoder.
func (c *conRun) checkCrashSamples(rng *Rng, n int) {
	if c.viol != nil || c.h.Disk < 0 {
		return
	}
	d := c.w.Disks[c.h.Disk]
	total := countChanges(d)
	if total == 0 {
		return
	}
	cmpOf := c.w.cmpOfStore(c.h)
	// boundaries between image-changing calls (all of them for short logs,
	// else a sample of 16), plus n torn cuts
	var cuts []CrashSpec
	if total <= 16 {
		for i := 0; i <= total; i++ {
			cuts = append(cuts, CrashSpec{Writes: i})
		}
	} else {
		for i := 0; i < 16; i++ {
			cuts = append(cuts, CrashSpec{Writes: rng.Intn(total + 1)})
		}
	}
	for i := 0; i < n; i++ {
		cuts = append(cuts, CrashSpec{Writes: rng.Intn(total + 1), Torn: 1 + rng.Intn(40)})
	}
	for _, spec := range cuts {
		img, _, _ := imageAt(d, spec.Writes, spec.Torn)
		c.w.Stats.CrashImgs++
		dec := Decode(img, int64(len(img)), cmpOf)
		st, err := ReadImageState(img, cmpOf)
		if dec == nil {
			if err == nil && len(st.Colls) != 0 {
				c.fail("crash-under-schedule", "crash", "crash after %d writes (+%d bytes): no complete root record but the store opens with collections %q", spec.Writes, spec.Torn, st.Names())
			}
			continue
		}
		if err != nil {
			c.fail("crash-under-schedule", "crash", "crash after %d writes (+%d bytes): a complete root record ends at %d but re-opening fails: %v", spec.Writes, spec.Torn, dec.Rec.End, err)
			return
		}
		if diff := stateDiff(st, dec.State(cmpOf)); diff != "" {
			c.fail("crash-under-schedule", "crash", "crash after %d writes (+%d bytes): NewStore and the decoder disagree: %s", spec.Writes, spec.Torn, diff)
			return
		}
	}
}

// finalAudit: after all tasks finished, a quiescent full read equals the
// model after all successful mutations (no lost update).
func (c *conRun) finalAudit(hi *history) {
	if c.viol != nil || hi == nil {
		return
	}
	for name, vs := range hi.vers {
		if st := vs[len(vs)-1].st; st != nil {
			c.h.M.Colls[name] = st
		} else {
			delete(c.h.M.Colls, name)
		}
	}
	c.w.Judge = nil
	c.w.auditStoreMode(c.h, "final-audit", "visit")
	if c.w.Viol != nil {
		v := c.w.Viol
		c.fail("lost-update", "final-audit", "after all tasks finished: %s", v.Msg)
	}
}
