package sim

import (
	"fmt"
	"sort"
)

// C03: histories are sampled; inside each history the crash points are
// enumerated from the write log: every boundary between image-changing
// calls, torn lengths of the call in flight, junk tails.

type crashCase struct {
	Disk int
	Spec CrashSpec
}

// crashCases enumerates the crash points of disk di for a finished run.
func crashCases(w *World, di int, r *Rng, thorough bool) []crashCase {
	d := w.Disks[di]
	var cases []crashCase
	// the image-changing entries
	var changes []*DiskOp
	for i := range d.Log {
		e := &d.Log[i]
		if (e.Kind == 'W' && (!e.Err || e.N > 0)) || (e.Kind == 'T' && !e.Err) {
			changes = append(changes, e)
		}
	}
	small := d.Size() <= 16384
	for wcount := 0; wcount <= len(changes); wcount++ {
		add := func(torn int) {
			cs := CrashSpec{Writes: wcount, Torn: torn}
			cases = append(cases, crashCase{Disk: di, Spec: cs})
			// the same cut with an adversarial tail
			if r.Bool(0.35) {
				cj := cs
				cj.Junk = 1 + r.Intn(4)
				cj.JunkSeed = r.Uint64()
				cj.JunkLen = r.Intn(80)
				cases = append(cases, crashCase{Disk: di, Spec: cj})
			}
		}
		add(0)
		if wcount == len(changes) {
			break
		}
		e := changes[wcount]
		if e.Kind != 'W' || e.N <= 1 {
			continue
		}
		n := e.N
		// The commit point (the last write of a Flush: the root record) and
		// any write that lands on bytes already in the file (a stale tail
		// being overwritten after a re-open; never a live record on the
		// unchanged tree) are cut at every byte: there a torn write can
		// leave a mixture of old and new bytes.
		lastOfFlush := e.Kind2 == "flush" && (wcount+1 == len(changes) || changes[wcount+1].Op != e.Op || changes[wcount+1].Sub != e.Sub)
		overwrites := e.Off < e.Size0
		if (thorough && small) || ((lastOfFlush || overwrites) && n <= 400) {
			if lastOfFlush {
				w.probe("crash-root-record-write-cut-at-every-byte")
			}
			if overwrites {
				w.probe("crash-overwriting-write-cut-at-every-byte")
			}
			for t := 1; t < n; t++ {
				add(t)
			}
			continue
		}
		seen := map[int]bool{}
		cands := []int{1, n - 1, n / 2, 1 + r.Intn(n-1), 1 + r.Intn(n-1), 2, n - 2, 3, n - 3, 12, 13, 20, 23, 24, n - 12, n - 24}
		k := 0
		if thorough {
			k = 12
		}
		for i := 0; i < k; i++ {
			cands = append(cands, 1+r.Intn(n-1))
		}
		limit := 6
		if thorough {
			limit = 40
		}
		cnt := 0
		for _, t := range cands {
			if t <= 0 || t >= n || seen[t] {
				continue
			}
			seen[t] = true
			add(t)
			cnt++
			if cnt >= limit {
				break
			}
		}
	}
	return cases
}

// checkCrashImage opens one crash image with the real code and with the
// decoder and compares both with the flush that must survive.
func checkCrashImage(img []byte, stack []MFlush) (oracle, msg string) {
	var want MState
	have := len(stack) > 0
	if have {
		want = stack[len(stack)-1].State
	} else {
		want = MState{Colls: map[string]*MColl{}}
	}
	cmpOf := func(name string) int {
		for i := len(stack) - 1; i >= 0; i-- {
			if c, ok := stack[i].State.Colls[name]; ok {
				return c.Cmp
			}
		}
		return 0
	}
	s, _, err := OpenImage(img, cmpOf)
	if !have {
		if err != nil {
			return "", "" // the documented "no roots" error
		}
		if len(img) == 0 && err != nil {
			return "crash-recovery", fmt.Sprintf("opening an empty file failed: %v", err)
		}
		st, rerr := ReadStoreState(s, cmpOf)
		if rerr != nil {
			return "crash-recovery", fmt.Sprintf("no flush ever completed; the store opened but cannot be read: %v", rerr)
		}
		if len(st.Colls) != 0 {
			return "crash-recovery", fmt.Sprintf("no flush ever completed but the recovered store has collections %q", st.Names())
		}
		if dec := Decode(img, int64(len(img)), nil); dec != nil {
			return "crash-decoder", fmt.Sprintf("no flush ever completed but the decoder finds a root record at %d", dec.Rec.Off)
		}
		return "", ""
	}
	if err != nil {
		return "crash-recovery", fmt.Sprintf("re-opening the surviving file failed (%v) although a flush had completed (its root record ends at %d, file has %d bytes)", err, stack[len(stack)-1].End, len(img))
	}
	st, rerr := ReadStoreState(s, cmpOf)
	if rerr != nil {
		return "crash-recovery", fmt.Sprintf("the recovered store cannot be read: %v", rerr)
	}
	if d := stateDiff(st, want); d != "" {
		return "crash-recovery", fmt.Sprintf("the recovered store is not the last completed flush (root record ending at %d): %s", stack[len(stack)-1].End, d)
	}
	dec := Decode(img, int64(len(img)), cmpOf)
	if dec == nil {
		return "crash-decoder", "the independent decoder finds no root record in the surviving file"
	}
	if d := stateDiff(dec.State(cmpOf), want); d != "" {
		return "crash-decoder", fmt.Sprintf("the independent decoder reads something else than the last completed flush: %s", d)
	}
	return "", ""
}

// opIndexOfChange returns the trace index of the operation that issued
// the n-th (0-based) image-changing call of disk di.
func opIndexOfChange(w *World, di int, n int) int {
	cnt := 0
	for i := range w.Disks[di].Log {
		e := &w.Disks[di].Log[i]
		if (e.Kind == 'W' && (!e.Err || e.N > 0)) || (e.Kind == 'T' && !e.Err) {
			if cnt == n {
				return e.Op
			}
			cnt++
		}
	}
	return len(w.Trace) - 1
}

// RunCrash is the engine of C03.
func RunCrash(plan *Plan, thorough bool) *RunResult {
	p := Profiles()["C03"]
	// explicit traces (replays, minimiser candidates) are plain sequential runs
	if len(plan.Ops) > 0 {
		r := RunSeq(plan, p)
		r.Evals = 1
		return r
	}
	r := RunSeq(plan, p)
	r.Evals = 1
	if r.Viol != nil || r.World.Aborted {
		return r
	}
	w := r.World
	rng := NewRng(Mix(plan.Seed, 0xc3a5))
	flushes := 0
	for di := range w.Disks {
		flushes += len(w.Files[di].Timeline)
		cases := crashCases(w, di, rng, thorough)
		// Bounded runs: every crash image is rebuilt from the log, opened
		// by the real code and decoded, i.e. costs time proportional to the
		// file size.  A history with a large file (70 KiB root records,
		// 64 KiB values) keeps a deterministic sample of its cut points so
		// that one run cannot take minutes.
		capBytes := int64(48 << 20)
		if thorough {
			capBytes = 256 << 20
		}
		if est := int64(len(cases)) * (w.Disks[di].Size() + 1); est > capBytes {
			stride := int((est + capBytes - 1) / capBytes)
			kept := cases[:0]
			for i, c := range cases {
				if i%stride == 0 || c.Spec.Torn == 0 && c.Spec.Junk == 0 && i%((stride+3)/4) == 0 {
					kept = append(kept, c)
				}
			}
			cases = kept
			w.probe("crash-cut-points-sampled-for-a-large-file")
		}
		for _, c := range cases {
			img, stack := w.CrashImage(di, &c.Spec)
			Progress.Add(1)
			w.Stats.CrashImgs++
			r.Evals++
			if c.Spec.Torn > 0 && len(stack) > 0 {
				w.probe("crash-torn-write-over-completed-flush")
			}
			if c.Spec.Junk > 0 {
				w.probe(fmt.Sprintf("crash-junk-kind-%d", c.Spec.Junk))
			}
			oracle, msg := checkCrashImage(img, stack)
			if oracle == "" {
				continue
			}
			if forgedInImage(w, di, img) {
				w.probe("crash-image-with-coincidental-forged-root-skipped")
				continue
			}
			// report in operation form: history up to the interrupted
			// operation, crash, open, audit
			cut := len(w.Trace)
			if c.Spec.Writes >= 0 && c.Spec.Writes < countChanges(w.Disks[di]) {
				cut = opIndexOfChange(w, di, c.Spec.Writes) + 1
			}
			spec := c.Spec
			ops := append([]Op{}, w.Trace[:cut]...)
			ops = append(ops, Op{Kind: "crash", D: di, Crash: &spec},
				Op{Kind: "open", S: 1000, D: di, CB: CBKeyCompare},
				Op{Kind: "audit", S: -1, Var: "visit"})
			r.Plan = &Plan{Prop: plan.Prop, Profile: plan.Profile, Seed: plan.Seed, Ops: ops}
			r.Viol = &Violation{Prop: plan.Prop, Oracle: oracle, Op: cut, OpKind: "crash",
				Msg: fmt.Sprintf("disk %d, crash after %d complete writes + %d bytes of the next (junk kind %d): %s", di, c.Spec.Writes, c.Spec.Torn, c.Spec.Junk, msg)}
			return r
		}
		// continue some histories on the recovered store
		if len(cases) > 0 {
			nCont := 1
			if thorough {
				nCont = 3
			}
			for k := 0; k < nCont; k++ {
				c := cases[rng.Intn(len(cases))]
				cut := len(w.Trace)
				if c.Spec.Writes >= 0 && c.Spec.Writes < countChanges(w.Disks[di]) {
					cut = opIndexOfChange(w, di, c.Spec.Writes) + 1
				}
				spec := c.Spec
				prefix := append([]Op{}, w.Trace[:cut]...)
				prefix = append(prefix, Op{Kind: "crash", D: di, Crash: &spec})
				cseed := Mix(plan.Seed, uint64(k), 77)
				cr := RunSeqContinue(&Plan{Prop: plan.Prop, Profile: plan.Profile, Seed: cseed, Ops: prefix}, p, rng.Range(6, 25), k == 0)
				r.Evals++
				w.probe("crash-continued")
				for kk, vv := range cr.Stats.Probes {
					w.Stats.Probes[kk] += vv
				}
				if cr.Viol != nil {
					// the replay must run under the seed the continuation ran
					// under (library-chosen priorities of Set come from it)
					cr.Plan = &Plan{Prop: plan.Prop, Profile: plan.Profile, Seed: cseed, Ops: cr.World.Trace}
					cr.Evals = r.Evals
					cr.Viol.Msg = "after crash recovery: " + cr.Viol.Msg
					return cr
				}
			}
		}
	}
	if flushes >= 2 && w.Stats.Probes["crash-torn-write-over-completed-flush"] > 0 {
		r.NonTriv = true
	}
	return r
}

// RunSeqContinue executes an explicit prefix and then lets the generator
// continue the history for nMore operations (ending with an audit, and
// optionally a second crash followed by a re-open and audit).
func RunSeqContinue(plan *Plan, p *Profile, nMore int, secondCrash bool) *RunResult {
	resetGlobals(plan.Seed)
	w := NewWorld(plan.Prop)
	applyProfile(w, p)
	res := &RunResult{Plan: plan, World: w}
	CurWorld.Store(w)
	var trace []Op
	step := func(op Op) bool {
		trace = append(trace, op)
		w.Trace = trace
		w.Exec(len(trace)-1, op)
		return w.Viol == nil && !w.Aborted
	}
	ok := true
	for _, op := range plan.Ops {
		if ok = step(op); !ok {
			break
		}
	}
	if ok {
		g := NewGenOnWorld(plan.Seed, w, p, nMore)
		for {
			op, more := g.Next()
			if !more {
				break
			}
			if ok = step(op); !ok {
				break
			}
		}
		if ok && secondCrash && len(w.Disks) > 0 {
			r := NewRng(Mix(plan.Seed, 991))
			di := r.Intn(len(w.Disks))
			n := countChanges(w.Disks[di])
			spec := &CrashSpec{Writes: n - r.Intn(3), Torn: r.Intn(30), Junk: r.Intn(5), JunkSeed: r.Uint64(), JunkLen: r.Intn(60)}
			if spec.Writes < 0 {
				spec.Writes = 0
			}
			for _, op := range []Op{{Kind: "crash", D: di, Crash: spec}, {Kind: "open", S: 2000, D: di, CB: CBKeyCompare}, {Kind: "audit", S: -1, Var: "visit"}} {
				if ok = step(op); !ok {
					break
				}
			}
		}
	}
	res.Viol = w.Viol
	res.Stats = w.Stats
	res.Fired = w.Env.Fired
	res.IOCounts = w.Env.Counts
	res.Sig = traceSig(trace)
	return res
}

// NewGenOnWorld builds a generator that continues on an existing world:
// collections and keys are taken from what the model knows.
func NewGenOnWorld(seed uint64, w *World, p *Profile, nOps int) *Gen {
	g := NewGen(seed, w, p)
	g.started = true
	g.nOps = nOps
	g.colls = nil
	names := map[string]*collCfg{}
	addColl := func(name string, mc *MColl) {
		cc := names[name]
		if cc == nil {
			cc = &collCfg{Name: name, Cmp: mc.Cmp, PrioMode: 1}
			names[name] = cc
		}
		for _, it := range mc.Items {
			if len(cc.Keys) < 40 {
				cc.Keys = append(cc.Keys, it.K)
			}
		}
	}
	for _, f := range w.Files {
		for _, fl := range f.Flushes {
			for n, mc := range fl.State.Colls {
				addColl(n, mc)
			}
		}
	}
	for _, h := range w.Stores {
		if h == nil {
			continue
		}
		for n, mc := range h.M.Colls {
			addColl(n, mc)
		}
		if h.ID >= g.nextStore {
			g.nextStore = h.ID + 1
		}
	}
	var ns []string
	for n := range names {
		ns = append(ns, n)
	}
	sort.Strings(ns)
	for _, n := range ns {
		cc := names[n]
		cc.Keys = append(cc.Keys, g.genKeys(4)...)
		g.colls = append(g.colls, *cc)
	}
	if len(g.colls) == 0 {
		g.colls = append(g.colls, collCfg{Name: "c", Keys: g.genKeys(6), PrioMode: 1})
	}
	g.nextDisk = len(w.Disks)
	// make sure every disk has a writable handle
	for di := range w.Disks {
		has := false
		for _, h := range w.Stores {
			if h != nil && !h.Closed && !h.Snap && h.Disk == di && h.S != nil {
				has = true
			}
		}
		if !has {
			g.queue = append(g.queue, Op{Kind: "open", S: g.nextStore, D: di, CB: g.cb | CBKeyCompare, N: g.chunk})
			g.nextStore++
		}
	}
	g.queue = append(g.queue, Op{Kind: "audit", S: -1, Var: "visit"})
	for _, cc := range g.colls {
		if g.r.Bool(0.5) {
			// (re-)create a collection on the recovered store
			for di := range w.Disks {
				_ = di
			}
		}
		_ = cc
	}
	return g
}

// forgedInImage: the image holds a complete self-consistent root record
// that no Flush of the history wrote at that place (an adversarial value
// or junk tail that became one by coincidence of offsets): excluded by
// the property.
func forgedInImage(w *World, di int, img []byte) bool {
	known := map[int64]bool{}
	for _, tl := range w.Files[di].Timeline {
		for _, fl := range tl.Stack {
			known[fl.End] = true
		}
	}
	for _, r := range AllRoots(img) {
		if !known[r.End] && !writtenAsOneRecord(w.Disks[di], r) {
			return true
		}
	}
	return false
}

// writtenAsOneRecord: some WriteAt of the history wrote exactly the bytes
// [r.Off, r.End).  That is how gkvlite writes a root record, and never how
// a value lands in the file (values are written behind an item header, the
// harness's adversarial values carry a tag in front of the look-alike, and
// junk tails are not written at all).  Such a record is a root record the
// code under test wrote, expected or not, and is judged, not excused.
func writtenAsOneRecord(d *SimDisk, r *DRootRec) bool {
	for i := range d.Log {
		e := &d.Log[i]
		if e.Kind == 'W' && e.Off == r.Off && e.Off+int64(e.Len) == r.End && e.N == e.Len {
			return true
		}
	}
	return false
}
