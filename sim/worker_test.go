package sim

import (
	"encoding/binary"
	"encoding/json"
	"fmt"
	"os"
	"runtime"
	"sync/atomic"
	"testing"
	"testing/synctest"
	"time"
)

// The worker is a test binary because testing/synctest needs a *testing.T.
// One worker process executes one run at a time.

type Job struct {
	Prop     string  `json:"prop"`
	Mode     string  `json:"mode"` // explore | replay
	Seed     uint64  `json:"seed"`
	Start    int     `json:"start"`
	Count    int     `json:"count"`
	Stride   int     `json:"stride"`
	BudgetS  float64 `json:"budget_s"`
	Out      string  `json:"out"`
	Replay   string  `json:"replay"`
	ReplayTo string  `json:"replay_to"`
	Tier     string  `json:"tier"`
	HangS    float64 `json:"hang_s"`
	NoMin    bool    `json:"no_min"`
	Canaries string  `json:"canaries"`
	Golden   string  `json:"golden"`
}

type JobResult struct {
	Prop      string         `json:"prop"`
	Runs      int            `json:"runs"`
	Steps     int            `json:"steps"`
	Ops       map[string]int `json:"ops"`
	Fired     map[string]int `json:"fired"`
	IO        map[string]int `json:"io"`
	Probes    map[string]int `json:"probes"`
	Counters  map[string]int `json:"counters"`
	Sigs      []uint64       `json:"sigs"`
	NTSigs    []uint64       `json:"nontrivial_sigs"`
	Samples   [][]string     `json:"samples"`
	Violation *Violation     `json:"violation,omitempty"`
	ReplayOut string         `json:"replay_out,omitempty"`
	Known     []string       `json:"known,omitempty"`
	WallS     float64        `json:"wall_s"`
	FirstSeed uint64         `json:"first_seed"`
	Hashes    []uint64       `json:"hashes,omitempty"` // per-run trace+result hashes (determinism self-test)
	Err       string         `json:"err,omitempty"`
}

// progress counter: see Progress in run.go
var curPlan atomic.Pointer[Plan]

func addMap(dst map[string]int, src map[string]int) {
	for k, v := range src {
		dst[k] += v
	}
}

// inBubble runs f inside a synctest bubble and reports a goroutine leak
// (blocked goroutines left at the end) as leak=true.
func inBubble(t *testing.T, f func()) (leak bool, panicMsg string) {
	defer func() {
		if r := recover(); r != nil {
			panicMsg = fmt.Sprint(r)
			leak = true
		}
	}()
	synctest.Test(t, func(t *testing.T) {
		Quiesce = synctest.Wait
		defer func() { Quiesce = nil }()
		f()
		synctest.Wait()
	})
	return false, ""
}

// runOne executes one plan in a fresh bubble.
func runOne(t *testing.T, plan *Plan) *RunResult {
	eng := EngineFor(plan.Prop)
	var res *RunResult
	curPlan.Store(plan)
	leak, msg := inBubble(t, func() { res = eng(plan) })
	if res == nil {
		res = &RunResult{Plan: plan, Stats: NewRunStats(), Fired: map[string]int{}, IOCounts: map[byte]int{}}
	}
	if res.Post != nil && res.Viol == nil && !leak {
		if v := res.Post(); v != nil {
			res.Viol = v
		}
	}
	if leak && res.Viol == nil {
		res.Viol = &Violation{Prop: plan.Prop, Oracle: "goroutine-leak", Op: len(plan.Ops), OpKind: "run",
			Msg: "at the end of the run a goroutine started by gkvlite is still blocked for ever (iterator producer never exits): " + msg}
	}
	Progress.Add(1)
	return res
}

func TestWorker(t *testing.T) {
	jobPath := os.Getenv("VERIF_JOB")
	if jobPath == "" {
		t.Skip("VERIF_JOB not set")
	}
	b, err := os.ReadFile(jobPath)
	if err != nil {
		t.Fatal(err)
	}
	var job Job
	if err := json.Unmarshal(b, &job); err != nil {
		t.Fatal(err)
	}
	if job.Stride <= 0 {
		job.Stride = 1
	}
	if job.HangS <= 0 {
		job.HangS = 60
	}
	Thorough = job.Tier == "thorough"
	CanaryDir = job.Canaries
	GoldenDir = job.Golden
	res := &JobResult{Prop: job.Prop, Ops: map[string]int{}, Fired: map[string]int{}, IO: map[string]int{}, Probes: map[string]int{}, Counters: map[string]int{}}
	start := time.Now()
	write := func() {
		res.WallS = time.Since(start).Seconds()
		out, _ := json.Marshal(res)
		if job.Out != "" {
			os.WriteFile(job.Out, out, 0644)
		}
	}
	// watchdog outside any bubble: real time, atomics only
	go func() {
		last := Progress.Load()
		lastChange := time.Now()
		for {
			time.Sleep(500 * time.Millisecond)
			cur := Progress.Load()
			if cur != last {
				last = cur
				lastChange = time.Now()
				continue
			}
			if time.Since(lastChange).Seconds() > job.HangS {
				plan := curPlan.Load()
				w := CurWorld.Load()
				hp := &Plan{}
				if plan != nil {
					*hp = *plan
				}
				if w != nil && len(hp.Ops) == 0 {
					hp.Ops = append([]Op(nil), w.Trace...)
				}
				if plan != nil && plan.Seed != 0 && len(plan.Ops) == 0 {
					hp.Note = "trace generated from seed; the last operation is the one that does not return\n"
				}
				hp.Viol = &Violation{Prop: job.Prop, Oracle: "hang", OpKind: "run", Op: len(hp.Ops),
					Msg: fmt.Sprintf("no progress for %.0f s of real time: an operation does not terminate", job.HangS)}
				buf := make([]byte, 1<<16)
				n := runtime.Stack(buf, true)
				hp.Note = string(buf[:n])
				if job.ReplayTo != "" {
					WritePlan(job.ReplayTo, hp)
				}
				res.Violation = hp.Viol
				res.ReplayOut = job.ReplayTo
				res.Err = "hang"
				write()
				os.Exit(3)
			}
		}
	}()

	switch job.Mode {
	case "replay":
		if raw, rerr := os.ReadFile(job.Replay); rerr == nil {
			var g GoldenFile
			if json.Unmarshal(raw, &g) == nil && len(g.Image) > 0 {
				res.Runs = 1
				if msg := CheckGolden(job.Replay); msg != "" {
					res.Violation = &Violation{Prop: "C14", Oracle: "golden-image", OpKind: "open", Msg: msg}
					fmt.Printf("REPLAY-VIOLATION property=C14 oracle=golden-image: %s\n", shortMsg(msg))
				} else {
					fmt.Printf("REPLAY-OK property=C14\n")
				}
				write()
				return
			}
		}
		plan, err := ReadPlan(job.Replay)
		if err != nil {
			res.Err = err.Error()
			write()
			t.Fatal(err)
		}
		plan.Viol = nil
		r := runOne(t, plan)
		res.Runs = 1
		res.Violation = r.Viol
		if r.Viol != nil {
			fmt.Printf("REPLAY-VIOLATION property=%s oracle=%s op=%d kind=%s: %s\n", r.Viol.Prop, r.Viol.Oracle, r.Viol.Op, r.Viol.OpKind, shortMsg(r.Viol.Msg))
		} else {
			fmt.Printf("REPLAY-OK property=%s\n", plan.Prop)
		}
		write()
		return
	}

	if job.Mode == "golden-gen" {
		// write golden images from a few C14 histories (run against the build to be recorded)
		n := 0
		for i := 0; n < job.Count && i < 400; i++ {
			seed := Mix(job.Seed, MixStr("golden"), uint64(i))
			r := runOne(t, &Plan{Prop: "C14", Profile: "C14", Seed: seed})
			if r.Viol != nil || r.World == nil || len(r.World.Disks) == 0 {
				continue
			}
			if top, ok := r.World.Files[0].Top(); !ok || len(top.State.Colls) == 0 || r.World.Files[0].Opaque {
				continue
			}
			if r.World.Disks[0].Size() > 300000 {
				continue
			}
			if WriteGolden(fmt.Sprintf("%s/g%02d.json", job.Golden, n), r.World, job.Replay) == nil {
				n++
			}
		}
		res.Runs = n
		write()
		return
	}
	if job.Prop == "C14" {
		for _, f := range GoldenFiles() {
			res.Counters["golden_images_checked"]++
			if msg := CheckGolden(f); msg != "" {
				res.Violation = &Violation{Prop: "C14", Oracle: "golden-image", OpKind: "open", Msg: msg}
				res.ReplayOut = f
				write()
				return
			}
		}
	}

	// canaries: deliberate scenarios for known findings of this property
	for _, c := range Canaries(job.Prop) {
		CompensateGetLeak = false
		TolerateOldVersionLeak = false
		TolerateEvictAbsorb = false
		r := runOne(t, c.Plan)
		if r.Viol != nil && r.Viol.Oracle == c.Oracle {
			res.Known = append(res.Known, c.ID)
			if job.ReplayTo != "" {
				cp := *c.Plan
				cp.Viol = r.Viol
				WritePlan(job.ReplayTo+".canary-"+c.ID+".json", &cp)
			}
		} else if r.Viol != nil {
			res.Violation = r.Viol
			cp := *c.Plan
			cp.Viol = r.Viol
			if job.ReplayTo != "" {
				WritePlan(job.ReplayTo, &cp)
				res.ReplayOut = job.ReplayTo
			}
			write()
			return
		}
	}
	for _, id := range res.Known {
		if id == "get-ref-leak" {
			CompensateGetLeak = true
		}
		if id == "old-version-lazy-load-leak" {
			TolerateOldVersionLeak = true
		}
		if id == "evict-absorbs-fault" {
			TolerateEvictAbsorb = true
		}
		if os.Getenv("VERIF_NO_TOLERATE") != "" {
			CompensateGetLeak, TolerateOldVersionLeak, TolerateEvictAbsorb = false, false, false
		}
	}

	var firstHashes, firstSeeds []uint64
	sigs := map[uint64]bool{}
	ntsigs := map[uint64]bool{}
	var curFile *os.File
	if job.Out != "" {
		curFile, _ = os.Create(job.Out + ".cur")
		if curFile != nil {
			defer curFile.Close()
		}
	}
	for i := 0; i < job.Count; i++ {
		if job.BudgetS > 0 && time.Since(start).Seconds() > job.BudgetS {
			break
		}
		idx := job.Start + i*job.Stride
		seed := Mix(job.Seed, MixStr(job.Prop), uint64(idx))
		if res.Runs == 0 {
			res.FirstSeed = seed
		}
		plan := &Plan{Prop: job.Prop, Profile: job.Prop, Seed: seed, Index: idx + 1}
		if curFile != nil {
			// which run is executing: a panic in a goroutine started by gkvlite
			// (iterator producer) cannot be recovered and kills the process;
			// the driver then replays this run from its seed
			var b [16]byte
			binary.BigEndian.PutUint64(b[0:8], seed)
			binary.BigEndian.PutUint64(b[8:16], uint64(idx+1))
			curFile.WriteAt(b[:], 0)
		}
		t0 := time.Now()
		r := runOne(t, plan)
		if d := time.Since(t0).Seconds(); d > 3 {
			res.Counters["runs_slower_than_3s"]++
			if int(d*1000) > res.Counters["slowest_run_ms"] {
				res.Counters["slowest_run_ms"] = int(d * 1000)
				res.Counters["slowest_run_index"] = idx
			}
		}
		res.Runs++
		res.Steps += r.Stats.Steps
		addMap(res.Ops, r.Stats.Ops)
		addMap(res.Fired, r.Fired)
		addMap(res.Probes, r.Stats.Probes)
		for k, v := range r.IOCounts {
			res.IO[string(k)] += v
		}
		res.Counters["audits"] += r.Stats.Audits
		res.Counters["compares"] += r.Stats.Compares
		res.Counters["crash_images"] += r.Stats.CrashImgs
		res.Counters["fault_runs"] += r.Stats.FaultRuns
		res.Counters["flushes"] += r.Stats.Flushes
		res.Counters["decodes"] += r.Stats.Decodes
		res.Counters["reads_checked"] += r.Stats.ReadsSeen
		res.Counters["writes_checked"] += r.Stats.WritesSeen
		res.Counters["skipped_ops"] += r.Stats.Skipped
		res.Counters["evaluations"] += r.Evals
		sigs[r.Sig] = true
		if r.NonTriv {
			ntsigs[r.Sig] = true
		}
		if i < 4 && r.Viol == nil {
			firstHashes = append(firstHashes, r.Hash)
			firstSeeds = append(firstSeeds, seed)
		}
		if os.Getenv("VERIF_HASHES") != "" {
			res.Hashes = append(res.Hashes, r.Hash)
		}
		if len(res.Samples) < 3 && r.World != nil && (r.NonTriv || i > 20) {
			if r.Sample != nil {
				res.Samples = append(res.Samples, append([]string{fmt.Sprintf("seed=%d", seed)}, r.Sample...))
			} else {
				res.Samples = append(res.Samples, append([]string{fmt.Sprintf("seed=%d", seed)}, TraceStrings(r.World.Trace, 40)...))
			}
		}
		if r.Viol != nil {
			full := &Plan{Prop: job.Prop, Profile: job.Prop, Seed: seed, Viol: r.Viol, Extra: r.Plan.Extra}
			if r.World != nil {
				full.Ops = r.World.Trace
			}
			if r.Plan.Ops != nil {
				full.Ops = r.Plan.Ops
				if r.Plan.Seed != 0 {
					// an explicit trace replays under the seed it ran under
					// (a continuation after a crash runs under a derived one)
					full.Seed = r.Plan.Seed
				}
			}
			if r.Plan.Con != nil {
				full.Ops = nil
				full.Con = r.Plan.Con
				full.Sched = r.Plan.Sched
				full.FixedSched = true
			}
			min := full
			if !job.NoMin {
				min = Minimise(t, full)
			}
			res.Violation = min.Viol
			if job.ReplayTo != "" {
				WritePlan(job.ReplayTo, min)
				res.ReplayOut = job.ReplayTo
			}
			break
		}
	}
	// determinism spot check: re-execute the first runs; the hash of trace,
	// schedule, disk images and verdict must repeat exactly
	if res.Violation == nil {
		for k, seed := range firstSeeds {
			r := runOne(t, &Plan{Prop: job.Prop, Profile: job.Prop, Seed: seed, Index: job.Start + k*job.Stride + 1})
			res.Counters["determinism_reexecutions"]++
			if r.Hash != firstHashes[k] {
				res.Err = fmt.Sprintf("nondeterminism: seed %d gave hash %d first and %d when re-executed", seed, firstHashes[k], r.Hash)
				break
			}
		}
	}
	for s := range sigs {
		res.Sigs = append(res.Sigs, s)
	}
	for s := range ntsigs {
		res.NTSigs = append(res.NTSigs, s)
	}
	write()
}
