package sim

// Own PRNG (splitmix64 seeding + xoshiro256**), so that the stream of
// choices does not depend on the Go release.  It is the only source of
// choices in the simulator.

type Rng struct{ s [4]uint64 }

func splitmix(x *uint64) uint64 {
	*x += 0x9e3779b97f4a7c15
	z := *x
	z = (z ^ (z >> 30)) * 0xbf58476d1ce4e5b9
	z = (z ^ (z >> 27)) * 0x94d049bb133111eb
	return z ^ (z >> 31)
}

// Mix hashes a list of integers into one seed.
func Mix(vs ...uint64) uint64 {
	h := uint64(0x243f6a8885a308d3)
	for _, v := range vs {
		h ^= v
		h = splitmix(&h)
	}
	return h
}

func MixStr(s string) uint64 {
	h := uint64(1469598103934665603)
	for i := 0; i < len(s); i++ {
		h ^= uint64(s[i])
		h *= 1099511628211
	}
	return h
}

func NewRng(seed uint64) *Rng {
	r := &Rng{}
	x := seed
	for i := range r.s {
		r.s[i] = splitmix(&x)
	}
	return r
}

func rotl(x uint64, k uint) uint64 { return (x << k) | (x >> (64 - k)) }

func (r *Rng) Uint64() uint64 {
	s := &r.s
	res := rotl(s[1]*5, 7) * 9
	t := s[1] << 17
	s[2] ^= s[0]
	s[3] ^= s[1]
	s[1] ^= s[2]
	s[0] ^= s[3]
	s[2] ^= t
	s[3] = rotl(s[3], 45)
	return res
}

// Intn returns a value in [0,n); n<=0 gives 0.
func (r *Rng) Intn(n int) int {
	if n <= 1 {
		return 0
	}
	return int(r.Uint64() % uint64(n))
}

// Range returns a value in [lo,hi].
func (r *Rng) Range(lo, hi int) int {
	if hi <= lo {
		return lo
	}
	return lo + r.Intn(hi-lo+1)
}

func (r *Rng) Float() float64 { return float64(r.Uint64()>>11) / float64(1<<53) }

func (r *Rng) Bool(p float64) bool { return r.Float() < p }

// Pick chooses an index according to weights (all >= 0, sum > 0).
func (r *Rng) Pick(w []float64) int {
	sum := 0.0
	for _, x := range w {
		sum += x
	}
	if sum <= 0 {
		return 0
	}
	t := r.Float() * sum
	for i, x := range w {
		t -= x
		if t < 0 {
			return i
		}
	}
	return len(w) - 1
}

func (r *Rng) Bytes(n int) []byte {
	b := make([]byte, n)
	for i := range b {
		b[i] = byte(r.Uint64())
	}
	return b
}

func (r *Rng) Perm(n int) []int {
	p := make([]int, n)
	for i := range p {
		p[i] = i
	}
	for i := n - 1; i > 0; i-- {
		j := r.Intn(i + 1)
		p[i], p[j] = p[j], p[i]
	}
	return p
}
