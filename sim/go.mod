module verifsim

go 1.25

toolchain go1.26.8

godebug randseednop=0

require (
	github.com/anishathalye/porcupine v1.3.0
	github.com/cbehopkins/gkvlite v0.0.0
)

replace github.com/cbehopkins/gkvlite => /repo
