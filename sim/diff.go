package sim

import (
	"bytes"
	"fmt"
	"strings"
)

// C17: differential execution.  A generated history is executed once with
// no callbacks and once, from the same concrete trace, with a subset of
// the neutral callbacks installed; both executions are judged against the
// model on every operation, and the files they leave must decode to the
// same state (byte equality is recorded as a probe).

func withCallbacks(trace []Op, mask int, chunk int) []Op {
	res := make([]Op, len(trace))
	for i, op := range trace {
		if op.Kind == "open" || op.Kind == "reopen" {
			op.CB = mask
			if op.Kind == "open" {
				op.N = chunk
			}
		}
		res[i] = op
	}
	return res
}

func RunDiff(plan *Plan, thorough bool) *RunResult {
	p := Profiles()["C17"]
	if len(plan.Ops) > 0 {
		r := RunSeq(plan, p)
		r.Evals = 1
		return r
	}
	a := RunSeq(plan, p)
	a.Evals = 1
	if a.Viol != nil || a.World.Aborted {
		if a.Viol != nil {
			a.Viol.Msg = "without callbacks: " + a.Viol.Msg
		}
		return a
	}
	rng := NewRng(Mix(plan.Seed, 0xc17))
	mask := int(rng.Uint64() % (CBAll + 1))
	if rng.Bool(0.3) {
		mask = 1 << rng.Intn(8) // single callbacks are the sharpest probes
	}
	chunk := rng.Range(1, 9)
	ops := withCallbacks(a.World.Trace, mask, chunk)
	b := RunSeq(&Plan{Prop: plan.Prop, Profile: plan.Profile, Seed: plan.Seed, Ops: ops}, p)
	a.Evals = 2
	a.Stats.Probes[fmt.Sprintf("callback-mask-bits-%d", popcount(mask))]++
	for bit := 0; bit < 8; bit++ {
		if mask&(1<<bit) != 0 {
			a.Stats.Probes[fmt.Sprintf("callback-%d-installed", bit)]++
		}
	}
	if b.Viol != nil {
		b.Plan = &Plan{Prop: plan.Prop, Profile: plan.Profile, Seed: plan.Seed, Ops: ops}
		b.Evals = 2
		b.Viol.Msg = fmt.Sprintf("with callback mask %#x (the same history passes without callbacks): %s", mask, b.Viol.Msg)
		return b
	}
	// probes that only the callbacks themselves can hit (counted per name; map
	// iteration order does not matter for additions)
	for k, v := range b.Stats.Probes {
		if strings.Contains(k, "callback") {
			a.Stats.Probes[k] += v
		}
	}
	// the files must hold the same durable state
	for di := range a.World.Disks {
		if di >= len(b.World.Disks) {
			break
		}
		ia, ib := a.World.Disks[di].Image(), b.World.Disks[di].Image()
		if bytes.Equal(ia, ib) {
			a.Stats.Probes["images-byte-identical"]++
		} else {
			a.Stats.Probes["images-differ-bytewise"]++
		}
		top, ok := a.World.Files[di].Top()
		cmpOf := func(name string) int {
			if c, ok := top.State.Colls[name]; ok {
				return c.Cmp
			}
			return 0
		}
		da, db := Decode(ia, int64(len(ia)), cmpOf), Decode(ib, int64(len(ib)), cmpOf)
		if (da == nil) != (db == nil) {
			a.Viol = &Violation{Prop: plan.Prop, Oracle: "diff-decodability", OpKind: "run", Op: len(ops),
				Msg: fmt.Sprintf("disk %d: with callback mask %#x the file is decodable=%v, without callbacks decodable=%v", di, mask, db != nil, da != nil)}
			a.Plan = &Plan{Prop: plan.Prop, Profile: plan.Profile, Seed: plan.Seed, Ops: ops}
			return a
		}
		if da != nil && ok {
			if d := stateDiff(db.State(cmpOf), da.State(cmpOf)); d != "" {
				a.Viol = &Violation{Prop: plan.Prop, Oracle: "diff-state", OpKind: "run", Op: len(ops),
					Msg: fmt.Sprintf("disk %d: the file written with callback mask %#x decodes differently from the one written without callbacks: %s", di, mask, d)}
				a.Plan = &Plan{Prop: plan.Prop, Profile: plan.Profile, Seed: plan.Seed, Ops: ops}
				return a
			}
			if p := db.Problems(); len(p) > 0 {
				a.Viol = &Violation{Prop: plan.Prop, Oracle: "layout", OpKind: "run", Op: len(ops),
					Msg: fmt.Sprintf("disk %d: with callback mask %#x the file violates the layout: %s", di, mask, p[0])}
				a.Plan = &Plan{Prop: plan.Prop, Profile: plan.Profile, Seed: plan.Seed, Ops: ops}
				return a
			}
		}
	}
	a.NonTriv = a.Stats.Flushes > 0 && mask != 0
	a.Sig = Mix(a.Sig, uint64(mask))
	return a
}

func popcount(x int) int {
	n := 0
	for x != 0 {
		n += x & 1
		x >>= 1
	}
	return n
}
