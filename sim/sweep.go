package sim

import "fmt"

// C13 sweep: for small key sets every insertion order x priority ranking
// is executed systematically in the first runs of a check (n <= 4 always,
// n = 5 in the thorough tier), each followed by deletions in insertion
// order, with the tree oracle after every step.  This is a workload
// dimension of the same engine, not a separate technique; the bulk of
// C13 remains seeded sampling.

func factorial(n int) int {
	f := 1
	for i := 2; i <= n; i++ {
		f *= i
	}
	return f
}

// nthPerm returns the k-th permutation of 0..n-1 (factorial number system).
func nthPerm(n, k int) []int {
	elems := make([]int, n)
	for i := range elems {
		elems[i] = i
	}
	res := make([]int, 0, n)
	for i := n; i >= 1; i-- {
		f := factorial(i - 1)
		j := k / f
		k %= f
		res = append(res, elems[j])
		elems = append(elems[:j], elems[j+1:]...)
	}
	return res
}

// SweepSize returns the number of sweep cases.
func SweepSize(thorough bool) int {
	maxN := 4
	if thorough {
		maxN = 5
	}
	total := 0
	for n := 1; n <= maxN; n++ {
		total += factorial(n) * factorial(n)
	}
	return total
}

// SweepOps builds the trace of sweep case idx (0-based); ok=false beyond the sweep.
func SweepOps(idx int, thorough bool) ([]Op, bool) {
	maxN := 4
	if thorough {
		maxN = 5
	}
	for n := 1; n <= maxN; n++ {
		cnt := factorial(n) * factorial(n)
		if idx >= cnt {
			idx -= cnt
			continue
		}
		perm := nthPerm(n, idx/factorial(n))
		rank := nthPerm(n, idx%factorial(n))
		file := idx%2 == 1
		ops := []Op{{Kind: "open", S: 0, D: 0, Mem: !file}, {Kind: "setcoll", S: 0, C: "c"}}
		key := func(j int) []byte { return []byte(fmt.Sprintf("k%d", j)) }
		for i, j := range perm {
			ops = append(ops, Op{Kind: "setitem", S: 0, C: "c", Key: key(j), Val: &ValSpec{Tag: fmt.Sprintf("v%d.", i), Len: 4 + j}, Prio: int32((rank[j] + 1) * 10)})
			ops = append(ops, Op{Kind: "audit", S: -1, Var: "visit"})
		}
		if file {
			ops = append(ops, Op{Kind: "flush", S: 0}, Op{Kind: "audit", S: -1, Var: "visit"},
				Op{Kind: "reopen", S: 0, N: 1}, Op{Kind: "audit", S: -1, Var: "visit"})
		}
		for _, j := range perm {
			ops = append(ops, Op{Kind: "del", S: 0, C: "c", Key: key(j)}, Op{Kind: "audit", S: -1, Var: "visit"})
		}
		return ops, true
	}
	return nil, false
}
