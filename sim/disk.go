package sim

import (
	"bytes"
	"errors"
	"fmt"
	"io"
	"os"
	"runtime"
	"strings"
	"time"
)

// SimDisk is the only file gkvlite ever sees in a simulated run: an
// in-memory image with an operation log, a fault plan and a park point
// for the scheduler in front of every call.

// Fault kinds.
const (
	FReadErr   = "read_error"     // k-th ReadAt: nothing read, error
	FReadShort = "read_short"     // k-th ReadAt: N bytes filled, error
	FWriteErr  = "write_error"    // k-th WriteAt: nothing written, error
	FWriteTorn = "write_torn"     // k-th WriteAt: first N bytes written, error
	FStatErr   = "stat_error"     // k-th Stat: error
	FTruncErr  = "truncate_error" // k-th Truncate: nothing truncated, error
)

// Fault addresses one fault: the K-th call (1-based) of the fault
// kind's call class on disk Disk inside the operation that carries it.
// Sticky faults keep failing every later call of that class in the
// operation.
type Fault struct {
	Disk   int    `json:"disk"`
	Kind   string `json:"kind"`
	K      int    `json:"k"`
	N      int    `json:"n,omitempty"`
	Sticky bool   `json:"sticky,omitempty"`
}

func faultClass(kind string) byte {
	switch kind {
	case FReadErr, FReadShort:
		return 'R'
	case FWriteErr, FWriteTorn:
		return 'W'
	case FStatErr:
		return 'S'
	case FTruncErr:
		return 'T'
	}
	return '?'
}

// DiskOp is one logged StoreFile call.
type DiskOp struct {
	Seq   int    // global sequence number over all disks of the world
	Kind  byte   // 'R','W','S','T'
	Off   int64  // offset (T: new size)
	Len   int    // requested length
	N     int    // bytes transferred
	Err   bool   // call returned an error
	Fault string // fault kind that fired, if any
	Op    int    // API operation index (top-level op in the trace)
	Sub   int    // nested operation sequence inside the top-level op
	Kind2 string // API operation kind that issued the call
	Task  string // task name (consim)
	Data  []byte // W: bytes the caller tried to write
	Size0 int64  // image length before the call
}

var ErrInjected = errors.New("simdisk: injected I/O fault")
var ErrReadOnlyHandle = errors.New("simdisk: file opened read-only")
var ErrIOBudget = errors.New("simdisk: I/O budget of operation exceeded (non-termination?)")

type simFileInfo struct{ size int64 }

func (fi simFileInfo) Name() string       { return "simdisk" }
func (fi simFileInfo) Size() int64        { return fi.size }
func (fi simFileInfo) Mode() os.FileMode  { return 0644 }
func (fi simFileInfo) ModTime() time.Time { return time.Time{} }
func (fi simFileInfo) IsDir() bool        { return false }
func (fi simFileInfo) Sys() interface{}   { return nil }

// DiskEnv is shared by all disks of one world.
type DiskEnv struct {
	Seq     int
	Yield   func(site string) // nil in the sequential engine
	CurOp   int
	CurSub  int
	CurKind string
	CurTask func() string
	// per-operation I/O budget (calls); <=0: unlimited
	Budget     int
	BudgetUsed int
	BudgetHit  bool
	Fired      map[string]int // fault kind -> times fired (whole run)
	FiredInOp  int            // faults fired in the current operation
	// ... of which inside Collection.EvictSomeItems (which cannot report them)
	FiredInEvict int
	Counts     map[byte]int   // call class -> count (whole run)
	Monitor    func(d *SimDisk, e *DiskOp)
	KeepReads  bool // keep ReadAt/Stat entries in the log
	// torn writes moved to an earlier byte because the rest of the data
	// was in the file already
	TornShifted int
}

type SimDisk struct {
	ID       int
	env      *DiskEnv
	img      []byte
	Log      []DiskOp
	ReadOnly bool // handle opened read-only: writes/truncates refused
	faults   []Fault
	counts   map[byte]int // per current operation
	sticky   map[byte]string
	// the handle view: gkvlite gets a *DiskHandle so that a read-only
	// handle and a writable one can share one image
}

func NewSimDisk(id int, env *DiskEnv) *SimDisk {
	return &SimDisk{ID: id, env: env, counts: map[byte]int{}, sticky: map[byte]string{}}
}

func (d *SimDisk) Image() []byte { return d.img }
func (d *SimDisk) Size() int64   { return int64(len(d.img)) }
func (d *SimDisk) SetImage(b []byte) {
	d.img = append([]byte(nil), b...)
}

// BeginOp installs the faults of the operation about to run.
func (d *SimDisk) BeginOp(faults []Fault) {
	d.faults = d.faults[:0]
	for _, f := range faults {
		if f.Disk == d.ID {
			d.faults = append(d.faults, f)
		}
	}
	for k := range d.counts {
		delete(d.counts, k)
	}
	for k := range d.sticky {
		delete(d.sticky, k)
	}
}

func (d *SimDisk) OpCounts() map[byte]int {
	res := map[byte]int{}
	for k, v := range d.counts {
		res[k] = v
	}
	return res
}

func (d *SimDisk) pre(class byte) (fault *Fault, budgetErr error) {
	if d.env.Yield != nil {
		d.env.Yield("disk-" + string(class))
	}
	d.env.Seq++
	d.env.Counts[class]++
	if d.env.Budget > 0 {
		d.env.BudgetUsed++
		if d.env.BudgetUsed > d.env.Budget {
			d.env.BudgetHit = true
			return nil, ErrIOBudget
		}
	}
	d.counts[class]++
	k := d.counts[class]
	for i := range d.faults {
		f := &d.faults[i]
		if faultClass(f.Kind) != class {
			continue
		}
		if f.K == k || (f.Sticky && k > f.K) {
			d.env.Fired[f.Kind]++
			d.env.FiredInOp++
			if calledFrom("EvictSomeItems") {
				d.env.FiredInEvict++
			}
			return f, nil
		}
	}
	return nil, nil
}

// calledFrom reports whether a function whose name ends in fn is on the
// calling goroutine's stack (used only when a fault fires).
func calledFrom(fn string) bool {
	pcs := make([]uintptr, 64)
	n := runtime.Callers(2, pcs)
	frames := runtime.CallersFrames(pcs[:n])
	for {
		fr, more := frames.Next()
		if strings.HasSuffix(fr.Function, "."+fn) || strings.Contains(fr.Function, "."+fn+".") {
			return true
		}
		if !more {
			return false
		}
	}
}

func (d *SimDisk) log(op DiskOp) {
	op.Seq = d.env.Seq
	op.Op = d.env.CurOp
	op.Sub = d.env.CurSub
	op.Kind2 = d.env.CurKind
	if d.env.CurTask != nil {
		op.Task = d.env.CurTask()
	}
	if (op.Kind == 'R' || op.Kind == 'S') && !d.env.KeepReads {
		// reads do not change the image; they are only kept in the log
		// when an oracle evaluates them afterwards (C19)
		if d.env.Monitor != nil {
			d.env.Monitor(d, &op)
		}
		return
	}
	d.Log = append(d.Log, op)
	if d.env.Monitor != nil {
		d.env.Monitor(d, &d.Log[len(d.Log)-1])
	}
}

func (d *SimDisk) ReadAt(p []byte, off int64) (int, error) {
	f, berr := d.pre('R')
	size0 := int64(len(d.img))
	if berr != nil {
		d.log(DiskOp{Kind: 'R', Off: off, Len: len(p), Err: true, Fault: "budget", Size0: size0})
		return 0, berr
	}
	if f != nil {
		n := 0
		if f.Kind == FReadShort {
			n = f.N
			if n >= len(p) {
				n = len(p) - 1
			}
			if n < 0 {
				n = 0
			}
			if off >= 0 && off < size0 {
				n = copy(p[:n], d.img[off:])
			} else {
				n = 0
			}
		}
		d.log(DiskOp{Kind: 'R', Off: off, Len: len(p), N: n, Err: true, Fault: f.Kind, Size0: size0})
		return n, ErrInjected
	}
	if off < 0 {
		d.log(DiskOp{Kind: 'R', Off: off, Len: len(p), Err: true, Size0: size0})
		return 0, fmt.Errorf("simdisk: negative offset %d", off)
	}
	if off >= size0 {
		if len(p) == 0 {
			d.log(DiskOp{Kind: 'R', Off: off, Len: 0, Size0: size0})
			return 0, nil
		}
		d.log(DiskOp{Kind: 'R', Off: off, Len: len(p), Err: true, Size0: size0})
		return 0, io.EOF
	}
	n := copy(p, d.img[off:])
	if n < len(p) {
		d.log(DiskOp{Kind: 'R', Off: off, Len: len(p), N: n, Err: true, Size0: size0})
		return n, io.EOF
	}
	d.log(DiskOp{Kind: 'R', Off: off, Len: len(p), N: n, Size0: size0})
	return n, nil
}

func (d *SimDisk) apply(p []byte, off int64) {
	end := off + int64(len(p))
	if end > int64(len(d.img)) {
		if end > int64(cap(d.img)) {
			ni := make([]byte, end, end*2+64)
			copy(ni, d.img)
			d.img = ni
		} else {
			old := len(d.img)
			d.img = d.img[:end]
			for i := int64(old); i < off; i++ {
				d.img[i] = 0
			}
		}
	}
	copy(d.img[off:], p)
}

func (d *SimDisk) WriteAt(p []byte, off int64) (int, error) {
	f, berr := d.pre('W')
	size0 := int64(len(d.img))
	data := append([]byte(nil), p...)
	if berr != nil {
		d.log(DiskOp{Kind: 'W', Off: off, Len: len(p), Err: true, Fault: "budget", Data: data, Size0: size0})
		return 0, berr
	}
	if d.ReadOnly {
		d.log(DiskOp{Kind: 'W', Off: off, Len: len(p), Err: true, Fault: "readonly_handle", Data: data, Size0: size0})
		return 0, ErrReadOnlyHandle
	}
	if f != nil {
		n := 0
		if f.Kind == FWriteTorn {
			n = f.N
			if n >= len(p) {
				n = len(p) - 1
			}
			if n < 0 {
				n = 0
			}
			// A torn write must leave the file different from the complete
			// write.  Where the write lands on bytes already in the file (the
			// stale tail of an earlier process) and everything from byte n on
			// happens to be there already, the "partial" write would be a
			// complete one reported as failed; tear it earlier, at a byte that
			// really stays different.
			if off >= 0 && off+int64(len(p)) <= size0 && bytes.Equal(d.img[off+int64(n):off+int64(len(p))], p[n:]) {
				for n > 0 && d.img[off+int64(n)-1] == p[n-1] {
					n--
				}
				if n > 0 {
					n--
				}
				d.env.TornShifted++
			}
			if off >= 0 && n > 0 {
				d.apply(p[:n], off)
			}
		}
		d.log(DiskOp{Kind: 'W', Off: off, Len: len(p), N: n, Err: true, Fault: f.Kind, Data: data, Size0: size0})
		return n, ErrInjected
	}
	if off < 0 {
		d.log(DiskOp{Kind: 'W', Off: off, Len: len(p), Err: true, Data: data, Size0: size0})
		return 0, fmt.Errorf("simdisk: negative offset %d", off)
	}
	d.apply(p, off)
	d.log(DiskOp{Kind: 'W', Off: off, Len: len(p), N: len(p), Data: data, Size0: size0})
	return len(p), nil
}

func (d *SimDisk) Stat() (os.FileInfo, error) {
	f, berr := d.pre('S')
	size0 := int64(len(d.img))
	if berr != nil {
		d.log(DiskOp{Kind: 'S', Err: true, Fault: "budget", Size0: size0})
		return nil, berr
	}
	if f != nil {
		d.log(DiskOp{Kind: 'S', Err: true, Fault: f.Kind, Size0: size0})
		return nil, ErrInjected
	}
	d.log(DiskOp{Kind: 'S', Size0: size0})
	return simFileInfo{size: size0}, nil
}

func (d *SimDisk) Truncate(size int64) error {
	f, berr := d.pre('T')
	size0 := int64(len(d.img))
	if berr != nil {
		d.log(DiskOp{Kind: 'T', Off: size, Err: true, Fault: "budget", Size0: size0})
		return berr
	}
	if d.ReadOnly {
		d.log(DiskOp{Kind: 'T', Off: size, Err: true, Fault: "readonly_handle", Size0: size0})
		return ErrReadOnlyHandle
	}
	if f != nil {
		d.log(DiskOp{Kind: 'T', Off: size, Err: true, Fault: f.Kind, Size0: size0})
		return ErrInjected
	}
	if size < 0 {
		d.log(DiskOp{Kind: 'T', Off: size, Err: true, Size0: size0})
		return fmt.Errorf("simdisk: negative size")
	}
	if size <= size0 {
		d.img = d.img[:size]
	} else {
		d.apply(make([]byte, size-size0), size0)
	}
	d.log(DiskOp{Kind: 'T', Off: size, Size0: size0})
	return nil
}
