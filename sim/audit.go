package sim

import (
	"bytes"
	"encoding/binary"
	"fmt"
	"sort"

	"github.com/cbehopkins/gkvlite"
)

// ---------------------------------------------------------------------------
// Audits: complete re-read of open handles against their models.

// opAudit: S<0 audits every usable handle, else one.  Var selects the
// mode: "visit" (range visit from the minimum), "get" (lookup of every
// key ever used), "both".
func (w *World) opAudit(op Op) {
	w.Stats.Audits++
	if op.S >= 0 {
		if h := w.usable(op.S); h != nil && !h.needReopen {
			w.auditStoreMode(h, "audit", op.Var)
		}
	} else {
		for _, h := range w.Stores {
			if h != nil && !h.Closed && !h.Stale && h.S != nil && !h.needReopen {
				w.auditStoreMode(h, "audit", op.Var)
			}
		}
	}
	if w.Viol == nil && w.CheckFree {
		w.checkFreeNodes("audit")
	}
}

func (w *World) auditStore(h *StoreH, kind string) { w.auditStoreMode(h, kind, "visit") }

func (w *World) auditStoreMode(h *StoreH, kind string, mode string) {
	w.checkNames(h, kind)
	for _, name := range h.M.Names() {
		if w.Viol != nil {
			return
		}
		w.auditCollMode(h, name, kind, mode)
	}
}

func (w *World) auditColl(h *StoreH, name, kind string) { w.auditCollMode(h, name, kind, "visit") }

func (w *World) auditCollMode(h *StoreH, name, kind string, mode string) {
	mc := h.M.Colls[name]
	if mc == nil {
		return
	}
	var c *gkvlite.Collection
	w.protect(kind, func() { c = h.S.GetCollection(name) })
	if w.Viol != nil {
		return
	}
	if c == nil {
		w.fail("audit-collection-missing", kind, "s%d: collection %q missing", h.ID, name)
		return
	}
	what := fmt.Sprintf("audit of s%d/%q", h.ID, name)
	if mode == "" {
		mode = "visit"
	}
	if mode == "visit" || mode == "both" {
		var minIt *gkvlite.Item
		var err error
		w.protect(kind, func() { minIt, err = c.MinItem(false) })
		if w.Viol != nil {
			return
		}
		w.hold(h, minIt)
		if err != nil {
			w.fail("audit-error", kind, "%s: MinItem: %v", what, err)
			return
		}
		var got []visitRec
		if minIt != nil {
			start := cloneBytes(minIt.Key)
			w.protect(kind, func() {
				err = c.VisitItemsAscendEx(start, true, func(i *gkvlite.Item, depth uint64) bool {
					if i == nil {
						got = append(got, visitRec{})
						return true
					}
					got = append(got, visitRec{K: cloneBytes(i.Key), V: cloneBytes(i.Val), P: i.Priority, Depth: depth})
					return true
				})
			})
			if w.Viol != nil {
				return
			}
			if err != nil {
				w.fail("audit-error", kind, "%s: visit: %v", what, err)
				return
			}
		}
		gi := make([]MItem, len(got))
		for i, g := range got {
			gi[i] = MItem{K: g.K, V: g.V, P: g.P}
		}
		if d := itemsDiff(gi, mc.Items, true, true); d != "" {
			w.fail("audit-contents", kind, "%s: %s", what, d)
			return
		}
		if w.CheckTree {
			w.checkTreeShape(kind, what, mc, got)
			if w.Viol == nil {
				w.checkCachedTree(h, c, name, kind, what, mc)
			}
		}
	}
	if mode == "get" || mode == "both" {
		keys := make([]string, 0)
		for k := range h.Universe[name] {
			keys = append(keys, k)
		}
		sort.Strings(keys)
		for _, k := range keys {
			var it *gkvlite.Item
			var err error
			w.protect(kind, func() { it, err = c.GetItem([]byte(k), true) })
			if w.Viol != nil {
				return
			}
			w.hold(h, it)
			if err != nil {
				w.fail("audit-error", kind, "%s: GetItem(%s): %v", what, showBytes([]byte(k)), err)
				return
			}
			want, present := mc.Get([]byte(k))
			w.checkItem(kind, what+fmt.Sprintf(" GetItem(%s)", showBytes([]byte(k))), it, want, present, true)
			if w.Viol != nil {
				return
			}
		}
		for _, mm := range []string{"min", "max"} {
			var it *gkvlite.Item
			var err error
			w.protect(kind, func() {
				if mm == "min" {
					it, err = c.MinItem(true)
				} else {
					it, err = c.MaxItem(true)
				}
			})
			if w.Viol != nil {
				return
			}
			w.hold(h, it)
			if err != nil {
				w.fail("audit-error", kind, "%s: %s: %v", what, mm, err)
				return
			}
			if len(mc.Items) == 0 {
				w.checkItem(kind, what+" "+mm, it, MItem{}, false, true)
			} else if mm == "min" {
				w.checkItem(kind, what+" "+mm, it, mc.Items[0], true, true)
			} else {
				w.checkItem(kind, what+" "+mm, it, mc.Items[len(mc.Items)-1], true, true)
			}
			if w.Viol != nil {
				return
			}
		}
	}
	var n, b uint64
	var err error
	w.protect(kind, func() { n, b, err = c.GetTotals() })
	if w.Viol != nil {
		return
	}
	if err != nil {
		w.fail("audit-error", kind, "%s: GetTotals: %v", what, err)
		return
	}
	wn, wb := mc.Totals()
	if n != wn || b != wb {
		w.fail("audit-totals", kind, "%s: GetTotals = (%d, %d), want (%d, %d)", what, n, b, wn, wb)
	}
}

// ---------------------------------------------------------------------------
// C13: tree shape from the (key, priority, depth) sequence of a full visit

func (w *World) checkTreeShape(kind, what string, mc *MColl, got []visitRec) {
	// reconstruct: in each range the root is the unique item of minimal depth
	var bad string
	var rec func(lo, hi int, depth uint64, parentPrio int64)
	rec = func(lo, hi int, depth uint64, parentPrio int64) {
		if lo >= hi || bad != "" {
			return
		}
		root := -1
		for i := lo; i < hi; i++ {
			if got[i].Depth < depth {
				bad = fmt.Sprintf("key %s reported at depth %d inside a subtree whose root is at depth %d", showBytes(got[i].K), got[i].Depth, depth)
				return
			}
			if got[i].Depth == depth {
				if root >= 0 {
					bad = fmt.Sprintf("keys %s and %s both reported at depth %d in one subtree: depths do not describe a binary tree", showBytes(got[root].K), showBytes(got[i].K), depth)
					return
				}
				root = i
			}
		}
		if root < 0 {
			bad = fmt.Sprintf("no item at depth %d in the subtree of keys %s..%s", depth, showBytes(got[lo].K), showBytes(got[hi-1].K))
			return
		}
		if !mc.Lowered && !mc.Unknown && parentPrio >= 0 && int64(got[root].P) > parentPrio {
			bad = fmt.Sprintf("key %s (priority %d) is a child of an item with lower priority %d although no key was ever overwritten with a lower priority", showBytes(got[root].K), got[root].P, parentPrio)
			return
		}
		rec(lo, root, depth+1, int64(got[root].P))
		rec(root+1, hi, depth+1, int64(got[root].P))
	}
	rec(0, len(got), 0, -1)
	if bad != "" {
		w.fail("tree-shape", kind, "%s: %s", what, bad)
		return
	}
	if !mc.Lowered {
		w.checkDepths(kind, what, mc, got)
	}
}

// checkCachedTree (hooked): every cached node's aggregates are exact,
// by local consistency with its children (cached child: its verified
// aggregates; persisted uncached child: the aggregates in its record)
// and the root's against the model.
func (w *World) checkCachedTree(h *StoreH, c *gkvlite.Collection, name, kind, what string, mc *MColl) {
	root, _ := gkvlite.VerifTree(c)
	if root == nil {
		return
	}
	var img []byte
	if h.Disk >= 0 {
		img = w.Disks[h.Disk].Image()
	}
	childAgg := func(n *gkvlite.VerifNode, loc gkvlite.VerifLoc, empty bool) (uint64, uint64, bool) {
		if n != nil {
			return n.NumNodes, n.NumBytes, true
		}
		if empty {
			return 0, 0, true
		}
		if loc.Len == decNodeLen && loc.Off >= 0 && loc.Off+decNodeLen <= int64(len(img)) {
			b := img[loc.Off : loc.Off+decNodeLen]
			return binary.BigEndian.Uint64(b[36:44]), binary.BigEndian.Uint64(b[44:52]), true
		}
		return 0, 0, false
	}
	nodes := 0
	var bad string
	var keys [][]byte
	var rec func(n *gkvlite.VerifNode)
	rec = func(n *gkvlite.VerifNode) {
		if n == nil || bad != "" {
			return
		}
		nodes++
		rec(n.Left)
		ln, lb, ok1 := childAgg(n.Left, n.LeftLoc, n.LeftEmpty)
		rn, rb, ok2 := childAgg(n.Right, n.RightLoc, n.RightEmpty)
		var ib uint64
		okItem := true
		if n.ItemLoc.Len >= decItemHdr {
			ib = uint64(n.ItemLoc.Len) - decItemHdr
		} else if n.Item != nil && n.Item.Val != nil {
			ib = uint64(len(n.Item.Key) + len(n.Item.Val))
		} else {
			okItem = false
		}
		if n.Item != nil {
			keys = append(keys, n.Item.Key)
		}
		if ok1 && ok2 {
			if n.NumNodes != ln+rn+1 {
				bad = fmt.Sprintf("cached node records numNodes=%d but its subtrees hold %d+%d items (+1)", n.NumNodes, ln, rn)
				return
			}
			if okItem && n.NumBytes != lb+rb+ib {
				bad = fmt.Sprintf("cached node records numBytes=%d but its subtrees hold %d+%d bytes and its item %d", n.NumBytes, lb, rb, ib)
				return
			}
		}
		rec(n.Right)
	}
	rec(root)
	if bad == "" {
		wn, wb := mc.Totals()
		if root.NumNodes != wn || root.NumBytes != wb {
			bad = fmt.Sprintf("root node records (%d items, %d bytes), want (%d, %d)", root.NumNodes, root.NumBytes, wn, wb)
		}
	}
	if bad == "" {
		for i := 1; i < len(keys); i++ {
			if CompareRaw(mc.Cmp, keys[i-1], keys[i]) >= 0 {
				bad = fmt.Sprintf("cached keys out of search order: %s before %s", showBytes(keys[i-1]), showBytes(keys[i]))
				break
			}
		}
	}
	if nodes > 0 {
		w.probe("cached-nodes-checked")
	}
	if bad != "" {
		w.fail("tree-aggregates", kind, "%s: %s", what, bad)
	}
}

// ---------------------------------------------------------------------------
// C10 (hooked): no node reachable from an open handle is on the free list

func (w *World) checkFreeNodes(kind string) {
	free := gkvlite.VerifFreeNodes()
	if len(free) == 0 {
		return
	}
	for _, h := range w.Stores {
		if h == nil || h.Closed || h.Stale || h.S == nil || h.needReopen {
			continue
		}
		for _, name := range h.M.Names() {
			var c *gkvlite.Collection
			w.protect(kind, func() { c = h.S.GetCollection(name) })
			if c == nil || w.Viol != nil {
				continue
			}
			root, _ := gkvlite.VerifTree(c)
			var bad bool
			var rec func(n *gkvlite.VerifNode)
			rec = func(n *gkvlite.VerifNode) {
				if n == nil || bad {
					return
				}
				if free[n.ID] {
					bad = true
					return
				}
				rec(n.Left)
				rec(n.Right)
			}
			rec(root)
			if bad {
				w.fail("freed-but-reachable", kind, "s%d/%q: a node reachable from the open handle's current tree is on the free list", h.ID, name)
				return
			}
		}
	}
}

// ---------------------------------------------------------------------------
// C15: ledger checks

func (w *World) checkLedgerNow(kind string) {
	if !w.CheckLedger || w.Viol != nil {
		return
	}
	if len(w.Ledger.Negative) > 0 {
		w.fail("refcount-negative", kind, "an item's reference count dropped below zero: %s", w.Ledger.Negative[0])
		return
	}
	if len(w.Ledger.Resurrected) > 0 {
		w.fail("refcount-premature-release", kind, "ItemAddRef on an item whose last reference had already been released: %s", w.Ledger.Resurrected[0])
		return
	}
	for _, h := range w.Stores {
		if h == nil || h.Closed || h.Stale || h.S == nil || h.CB&CBRef == 0 || h.needReopen {
			continue
		}
		for _, name := range h.M.Names() {
			var c *gkvlite.Collection
			w.protect(kind, func() { c = h.S.GetCollection(name) })
			if c == nil || w.Viol != nil {
				continue
			}
			root, _ := gkvlite.VerifTree(c)
			var bad *gkvlite.Item
			var rec func(n *gkvlite.VerifNode)
			rec = func(n *gkvlite.VerifNode) {
				if n == nil || bad != nil {
					return
				}
				if n.Item != nil && w.Ledger.Count[n.Item] <= 0 {
					bad = n.Item
					return
				}
				rec(n.Left)
				rec(n.Right)
			}
			rec(root)
			if bad != nil {
				w.fail("refcount-reachable", kind, "s%d/%q: item %s cached in the open collection's tree has reference count %d", h.ID, name, showBytes(bad.Key), w.Ledger.Count[bad])
				return
			}
		}
	}
}

// opReleaseAll closes every store (order from op.N), drops the harness's
// own references and checks that every count is back to zero.
func (w *World) opReleaseAll(op Op) {
	kind := "releaseall"
	w.checkLedgerNow(kind)
	if w.Viol != nil {
		return
	}
	var hs []*StoreH
	for _, h := range w.Stores {
		if h != nil && h.S != nil && !h.Closed {
			hs = append(hs, h)
		}
	}
	r := NewRng(uint64(op.N))
	for _, i := range r.Perm(len(hs)) {
		h := hs[i]
		w.protect(kind, func() { h.S.Close() })
		h.Closed = true
		if w.Viol != nil {
			return
		}
	}
	w.quiesce()
	if !w.CheckLedger {
		return
	}
	if len(w.Ledger.Negative) > 0 {
		w.fail("refcount-negative", kind, "an item's reference count dropped below zero: %s", w.Ledger.Negative[0])
		return
	}
	// the harness drops its own references
	for it, n := range w.Ledger.Harness {
		w.Ledger.Count[it] -= n
	}
	w.Ledger.Harness = map[*gkvlite.Item]int{}
	if TolerateOldVersionLeak {
		// known finding (C15, old-version-lazy-load-leak): an item loaded
		// from disk through a version that had already been superseded
		// (snapshot or in-flight visit after the original moved on) sits in
		// a node nobody ever reclaims; exactly its allocation reference
		// stays outstanding.  Only items allocated in such a context are
		// excused, and only for exactly that one reference.
		for it, c := range w.Ledger.Count {
			if c == 1 && w.Ledger.Tagged[it] {
				w.Ledger.Count[it] = 0
				w.probe("known-old-version-item-excused")
			}
		}
	}
	if out := w.Ledger.Outstanding(); len(out) > 0 {
		pos, neg := 0, 0
		for _, c := range w.Ledger.Count {
			if c > 0 {
				pos++
			} else if c < 0 {
				neg++
			}
		}
		w.fail("refcount-unbalanced", kind, "after closing all stores and dropping the caller's references %d item(s) still have references and %d are over-released; e.g. %s", pos, neg, out[0])
	}
}

// ---------------------------------------------------------------------------
// C09 / C19 monitors on individual StoreFile calls

type interval struct{ lo, hi int64 }

func (w *World) installMonitors() {
	if !w.CheckWrites && !w.CheckReads {
		return
	}
	w.Env.Monitor = func(d *SimDisk, e *DiskOp) {
		if w.Viol != nil {
			return
		}
		switch e.Kind {
		case 'W':
			if w.CheckWrites {
				w.Stats.WritesSeen++
				w.monitorWrite(d, e)
			}
		case 'T':
			if w.CheckWrites {
				w.Stats.WritesSeen++
				w.monitorTruncate(d, e)
			}
		case 'R':
			if w.CheckReads {
				w.monitorRead(d, e)
			}
		}
	}
}

func (w *World) monitorWrite(d *SimDisk, e *DiskOp) {
	k := e.Kind2
	allowed := k == "flush" || k == "write" || ((k == "copyto" || k == "copyto@snap") && d.ID != w.copySrcDisk)
	if !allowed {
		w.fail("write-in-read-path", k, "disk %d: WriteAt(off=%d, len=%d) issued during %q, which must never write", d.ID, e.Off, e.Len, k)
		return
	}
	if e.Off < w.durable[d.ID] {
		w.fail("write-below-durable", k, "disk %d: WriteAt(off=%d, len=%d) starts below the end of the last durable root record (%d)", d.ID, e.Off, e.Len, w.durable[d.ID])
	}
}

func (w *World) monitorTruncate(d *SimDisk, e *DiskOp) {
	k := e.Kind2
	if k != "revert" {
		w.fail("truncate-outside-revert", k, "disk %d: Truncate(%d) issued during %q; only FlushRevert on the writable store may truncate", d.ID, e.Off, k)
		return
	}
	if e.Err {
		return
	}
	if e.Off > e.Size0 {
		w.fail("truncate-extends", k, "disk %d: Truncate(%d) extends the file (was %d)", d.ID, e.Off, e.Size0)
		return
	}
	if e.Off != 0 && rootRecordAt(d.Image(), e.Off) == nil {
		w.fail("truncate-not-at-root", k, "disk %d: Truncate(%d) does not end at a root record", d.ID, e.Off)
	}
}

func keyOnlyKind(kind string, wv bool) bool {
	switch kind {
	case "exist", "len", "set", "setitem", "del",
		"exist@snap", "len@snap", "set@snap", "setitem@snap", "del@snap":
		return true
	case "getitem", "min", "max", "visit", "iter", "blockvisit",
		"getitem@snap", "min@snap", "max@snap", "visit@snap", "iter@snap", "blockvisit@snap":
		return !wv
	}
	return false
}

func (w *World) monitorRead(d *SimDisk, e *DiskOp) {
	w.Stats.ReadsSeen++
	kind, wv := e.Kind2, w.curWV
	if w.OpOf != nil {
		kind, wv = w.OpOf()
	}
	if !keyOnlyKind(kind, wv) || e.Len == 0 {
		return
	}
	iv := w.valRanges[d.ID]
	lo, hi := e.Off, e.Off+int64(e.Len)
	i := sort.Search(len(iv), func(i int) bool { return iv[i].hi > lo })
	if i < len(iv) && iv[i].lo < hi {
		w.fail("value-read-by-key-only-op", kind, "disk %d: ReadAt(off=%d, len=%d) during key-only operation %q touches value bytes [%d,%d) of an item record", d.ID, e.Off, e.Len, kind, iv[i].lo, iv[i].hi)
		return
	}
	if e.Len >= decItemHdr {
		w.probe("keyonly-op-read-item-from-disk")
	}
}

// indexValueRanges records the value byte ranges of every item record
// reachable from the root record ending at end.
func (w *World) indexValueRanges(d int, end int64) {
	img := w.Disks[d].Image()
	rec := rootRecordAt(img, end)
	if rec == nil {
		rec = FindLastRoot(img, end)
	}
	if rec == nil {
		return
	}
	dec := DecodeAt(img, rec, nil)
	if w.valRanges == nil {
		w.valRanges = map[int][]interval{}
	}
	set := map[interval]bool{}
	for _, iv := range w.valRanges[d] {
		set[iv] = true
	}
	var rec2 func(n *DNode)
	rec2 = func(n *DNode) {
		if n == nil {
			return
		}
		if n.Item != nil && n.Item.ValLen > 0 {
			lo, hi := n.Item.ValRange()
			set[interval{lo, hi}] = true
		}
		rec2(n.Left)
		rec2(n.Right)
	}
	for _, dc := range dec.Colls {
		rec2(dc.Root)
	}
	res := make([]interval, 0, len(set))
	for iv := range set {
		res = append(res, iv)
	}
	sort.Slice(res, func(i, j int) bool { return res[i].lo < res[j].lo })
	w.valRanges[d] = res
}

// afterOp: per-operation checks on the log.
func (w *World) afterOp(op Op, logPos []int) {
	if w.Viol != nil {
		return
	}
	if w.CheckLedger {
		w.checkLedgerNow(op.Kind)
	}
	if w.CheckPins {
		w.checkPinsReleased(op.Kind)
	}
}

// checkPinsReleased: between operations, with no snapshot handle of a
// store left unclosed, nothing pins any version: the current version of
// every collection is referenced exactly once (hook).
func (w *World) checkPinsReleased(kind string) {
	w.quiesce()
	for _, h := range w.Stores {
		if h == nil || h.Snap || h.Closed || h.S == nil || h.needReopen {
			continue
		}
		pinned := false
		for _, o := range w.Stores {
			if o != nil && o.Snap && o.Origin == h.ID && !o.Closed {
				pinned = true
			}
		}
		if pinned {
			continue
		}
		for _, name := range h.M.Names() {
			c := h.S.GetCollection(name)
			if c == nil {
				continue
			}
			if refs, _ := gkvlite.VerifRootRefs(c); refs != 1 {
				w.fail("pin-not-released", kind, "s%d/%q: after %s returned, with no snapshot open and nothing in flight, the current version is referenced %d times (want 1): a visit, iterator or lookup never released its pin", h.ID, name, kind, refs)
				return
			}
		}
		w.probe("pins-checked")
	}
}

// checkOpenReads (C19): when the image ends in a root record, opening
// reads nothing outside that record.
func (w *World) checkOpenReads(d int, from int, rec *DRootRec, size int64, kind string) {
	if rec == nil || rec.End != size {
		return
	}
	w.probe("open-on-image-ending-in-root")
	for _, e := range w.Disks[d].Log[from:] {
		if e.Kind != 'R' || e.Len == 0 {
			continue
		}
		if e.Off < rec.Off || e.Off+int64(e.Len) > rec.End {
			w.fail("open-reads-beyond-root", kind, "disk %d (%d bytes): opening read [%d,%d), outside the last root record [%d,%d)", d, size, e.Off, e.Off+int64(e.Len), rec.Off, rec.End)
			return
		}
	}
}

var _ = bytes.Equal
