package sim

import (
	"encoding/json"
	"fmt"
	"os"
	"path/filepath"
	"sort"
)

// Golden images (C14, cross-build): files written by an earlier build of
// the library, committed with the state they hold.  The current build must
// open them to exactly that state, and so must the independent decoder.

type GoldenItem struct {
	K []byte `json:"k"`
	V []byte `json:"v"`
	P int32  `json:"p"`
}

type GoldenFile struct {
	Note  string                  `json:"note"`
	Image []byte                  `json:"image"`
	Cmp   map[string]int          `json:"cmp"`
	State map[string][]GoldenItem `json:"state"`
}

var GoldenDir string

func goldenState(g *GoldenFile) MState {
	st := MState{Colls: map[string]*MColl{}}
	for name, items := range g.State {
		mc := &MColl{Cmp: g.Cmp[name]}
		for _, it := range items {
			mc.Items = append(mc.Items, MItem{K: it.K, V: it.V, P: it.P})
		}
		st.Colls[name] = mc
	}
	return st
}

// CheckGolden verifies one golden file; "" when fine.
func CheckGolden(path string) string {
	b, err := os.ReadFile(path)
	if err != nil {
		return ""
	}
	var g GoldenFile
	if json.Unmarshal(b, &g) != nil {
		return ""
	}
	want := goldenState(&g)
	cmpOf := func(name string) int { return g.Cmp[name] }
	st, err := ReadImageState(g.Image, cmpOf)
	if err != nil {
		return fmt.Sprintf("golden image %s (written by an earlier build) cannot be opened/read by this build: %v", filepath.Base(path), err)
	}
	if d := stateDiff(st, want); d != "" {
		return fmt.Sprintf("golden image %s (written by an earlier build) opens to a different state with this build: %s", filepath.Base(path), d)
	}
	dec := Decode(g.Image, int64(len(g.Image)), cmpOf)
	if dec == nil {
		return fmt.Sprintf("golden image %s: independent decoder finds no root record", filepath.Base(path))
	}
	if d := stateDiff(dec.State(cmpOf), want); d != "" {
		return fmt.Sprintf("golden image %s: independent decoder disagrees with the recorded state: %s", filepath.Base(path), d)
	}
	return ""
}

func GoldenFiles() []string {
	if GoldenDir == "" {
		return nil
	}
	files, _ := filepath.Glob(filepath.Join(GoldenDir, "*.json"))
	sort.Strings(files)
	return files
}

// WriteGolden stores the file of disk 0 of a finished run with its state.
func WriteGolden(path string, w *World, note string) error {
	if len(w.Disks) == 0 {
		return fmt.Errorf("no disk")
	}
	top, ok := w.Files[0].Top()
	if !ok {
		return fmt.Errorf("no flush")
	}
	g := GoldenFile{Note: note, Image: w.Disks[0].Image()[:top.End], Cmp: map[string]int{}, State: map[string][]GoldenItem{}}
	for name, mc := range top.State.Colls {
		g.Cmp[name] = mc.Cmp
		items := []GoldenItem{}
		for _, it := range mc.Items {
			items = append(items, GoldenItem{K: it.K, V: it.V, P: it.P})
		}
		g.State[name] = items
	}
	b, err := json.Marshal(g)
	if err != nil {
		return err
	}
	return os.WriteFile(path, b, 0644)
}
