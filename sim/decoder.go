package sim

import (
	"bytes"
	"encoding/binary"
	"encoding/json"
	"fmt"
	"sort"
)

// Independent decoder of the version-4 file layout, written from the
// format description (property C14), sharing no code with gkvlite.
//
//   item record:  u32 total, u32 keyLen, u32 valLen, i32 priority, key, value   (big endian; total = 16+keyLen+valLen)
//   node record:  3 x (i64 offset, u32 length) for item,left,right; u64 numNodes; u64 numBytes   = 52 bytes, after its children
//   root record:  "0g1t2r"x2, u32 version=4, u32 length, JSON{name:{"o":off,"l":len}}, i64 own offset, u32 length, "3e4a5p"x2

var decMagicBeg = []byte("0g1t2r")
var decMagicEnd = []byte("3e4a5p")

const decVersion = 4
const decNodeLen = 52
const decItemHdr = 16
const decRootFixed = 12 + 4 + 4 + 8 + 4 + 12 // everything but the JSON

type DLoc struct {
	Off int64  `json:"o"`
	Len uint32 `json:"l"`
}

func (l DLoc) Empty() bool { return l.Off == 0 && l.Len == 0 }

type DRootRec struct {
	Off, End int64
	Locs     map[string]DLoc
	Names    []string
	JSON     []byte
}

type DItem struct {
	Loc    DLoc
	KeyLen uint32
	ValLen uint32
	Prio   int32
	Key    []byte
	Val    []byte
}

// ValRange returns the byte range [lo,hi) of the value in the file.
func (it *DItem) ValRange() (int64, int64) {
	lo := it.Loc.Off + decItemHdr + int64(it.KeyLen)
	return lo, lo + int64(it.ValLen)
}

type DNode struct {
	Loc                DLoc
	ItemLoc            DLoc
	LeftLoc, RightLoc  DLoc
	NumNodes, NumBytes uint64
	Item               *DItem
	Left, Right        *DNode
}

type DColl struct {
	Name     string
	Root     *DNode // nil when empty
	Items    []MItem
	Depths   []int
	Nodes    []*DNode // in key order
	Problems []string
}

type Decoded struct {
	Rec   *DRootRec
	Colls map[string]*DColl
}

// FindLastRoot searches backwards from maxEnd for the last complete,
// self-consistent root record ending at or before maxEnd.  nil when
// there is none.
func FindLastRoot(img []byte, maxEnd int64) *DRootRec {
	if maxEnd > int64(len(img)) {
		maxEnd = int64(len(img))
	}
	for end := maxEnd; end >= decRootFixed+2; end-- {
		if r := rootRecordAt(img, end); r != nil {
			return r
		}
	}
	return nil
}

// rootRecordAt decodes a root record that ends exactly at end.
func rootRecordAt(img []byte, end int64) *DRootRec {
	if end > int64(len(img)) || end < decRootFixed+2 {
		return nil
	}
	tail := img[end-24 : end]
	if !bytes.Equal(tail[12:18], decMagicEnd) || !bytes.Equal(tail[18:24], decMagicEnd) {
		return nil
	}
	off := int64(binary.BigEndian.Uint64(tail[0:8]))
	length := binary.BigEndian.Uint32(tail[8:12])
	if off < 0 || off+int64(length) != end || int64(length) < decRootFixed+2 {
		return nil
	}
	head := img[off:end]
	if !bytes.Equal(head[0:6], decMagicBeg) || !bytes.Equal(head[6:12], decMagicBeg) {
		return nil
	}
	if binary.BigEndian.Uint32(head[12:16]) != decVersion {
		return nil
	}
	if binary.BigEndian.Uint32(head[16:20]) != length {
		return nil
	}
	js := head[20 : len(head)-24]
	locs := map[string]DLoc{}
	if err := json.Unmarshal(js, &locs); err != nil {
		return nil
	}
	r := &DRootRec{Off: off, End: end, Locs: locs, JSON: append([]byte(nil), js...)}
	for n := range locs {
		r.Names = append(r.Names, n)
	}
	sort.Strings(r.Names)
	return r
}

// AllRoots returns every self-consistent root record in the image, in
// file order.
func AllRoots(img []byte) []*DRootRec {
	var res []*DRootRec
	for end := int64(decRootFixed + 2); end <= int64(len(img)); end++ {
		if r := rootRecordAt(img, end); r != nil {
			res = append(res, r)
		}
	}
	return res
}

type decCtx struct {
	img   []byte
	limit int64 // records must lie below this offset
	cmp   int
	count int
	prob  []string
}

func (c *decCtx) problem(f string, a ...interface{}) {
	if len(c.prob) < 20 {
		c.prob = append(c.prob, fmt.Sprintf(f, a...))
	}
}

func (c *decCtx) item(loc DLoc) *DItem {
	if loc.Off < 0 || loc.Len < decItemHdr || loc.Off+int64(loc.Len) > c.limit {
		c.problem("item record %v outside the file below %d", loc, c.limit)
		return nil
	}
	b := c.img[loc.Off : loc.Off+int64(loc.Len)]
	total := binary.BigEndian.Uint32(b[0:4])
	it := &DItem{Loc: loc}
	it.KeyLen = binary.BigEndian.Uint32(b[4:8])
	it.ValLen = binary.BigEndian.Uint32(b[8:12])
	it.Prio = int32(binary.BigEndian.Uint32(b[12:16]))
	if total != loc.Len {
		c.problem("item record at %d: total length field %d != location length %d", loc.Off, total, loc.Len)
	}
	if uint64(decItemHdr)+uint64(it.KeyLen)+uint64(it.ValLen) != uint64(total) {
		c.problem("item record at %d: total %d != 16+%d+%d", loc.Off, total, it.KeyLen, it.ValLen)
		return nil
	}
	if uint64(decItemHdr)+uint64(it.KeyLen)+uint64(it.ValLen) > uint64(len(b)) {
		c.problem("item record at %d: fields overrun the record", loc.Off)
		return nil
	}
	it.Key = b[decItemHdr : decItemHdr+it.KeyLen]
	it.Val = b[decItemHdr+it.KeyLen : decItemHdr+it.KeyLen+it.ValLen]
	return it
}

func rdLoc(b []byte) DLoc {
	return DLoc{Off: int64(binary.BigEndian.Uint64(b[0:8])), Len: binary.BigEndian.Uint32(b[8:12])}
}

func (c *decCtx) node(loc DLoc, before int64, depth int) *DNode {
	if loc.Empty() {
		return nil
	}
	c.count++
	if c.count > 1<<21 || depth > 1<<16 {
		c.problem("tree too large or cyclic")
		return nil
	}
	if loc.Len != decNodeLen {
		c.problem("node record at %d has length %d, want 52", loc.Off, loc.Len)
		return nil
	}
	if loc.Off < 0 || loc.Off+decNodeLen > c.limit {
		c.problem("node record %v outside the file below %d", loc, c.limit)
		return nil
	}
	if loc.Off+decNodeLen > before {
		c.problem("node record at %d is not written before its parent at %d", loc.Off, before)
		if loc.Off >= before {
			return nil // would risk a cycle
		}
	}
	b := c.img[loc.Off : loc.Off+decNodeLen]
	n := &DNode{Loc: loc}
	n.ItemLoc = rdLoc(b[0:12])
	n.LeftLoc = rdLoc(b[12:24])
	n.RightLoc = rdLoc(b[24:36])
	n.NumNodes = binary.BigEndian.Uint64(b[36:44])
	n.NumBytes = binary.BigEndian.Uint64(b[44:52])
	if n.ItemLoc.Empty() {
		c.problem("node record at %d has no item", loc.Off)
	} else {
		n.Item = c.item(n.ItemLoc)
	}
	n.Left = c.node(n.LeftLoc, loc.Off, depth+1)
	n.Right = c.node(n.RightLoc, loc.Off, depth+1)
	return n
}

// walk fills the in-order listing and checks aggregates.
func (c *decCtx) walk(n *DNode, d int, dc *DColl) (cnt, byts uint64) {
	if n == nil {
		return 0, 0
	}
	lc, lb := c.walk(n.Left, d+1, dc)
	if n.Item != nil {
		dc.Items = append(dc.Items, MItem{K: n.Item.Key, V: n.Item.Val, P: n.Item.Prio})
		dc.Depths = append(dc.Depths, d)
		dc.Nodes = append(dc.Nodes, n)
	}
	rc, rb := c.walk(n.Right, d+1, dc)
	cnt = lc + rc + 1
	byts = lb + rb
	if n.Item != nil {
		byts += uint64(n.Item.KeyLen) + uint64(n.Item.ValLen)
	}
	if n.NumNodes != cnt {
		c.problem("node at %d records numNodes=%d, subtree has %d", n.Loc.Off, n.NumNodes, cnt)
	}
	if n.NumBytes != byts {
		c.problem("node at %d records numBytes=%d, subtree has %d", n.Loc.Off, n.NumBytes, byts)
	}
	return cnt, byts
}

// DecodeColl decodes the tree rooted at loc; records must lie below limit.
func DecodeColl(img []byte, name string, loc DLoc, limit int64, cmp int) *DColl {
	c := &decCtx{img: img, limit: limit, cmp: cmp}
	dc := &DColl{Name: name}
	dc.Root = c.node(loc, limit, 0)
	c.walk(dc.Root, 0, dc)
	for i := 1; i < len(dc.Items); i++ {
		if CompareRaw(cmp, dc.Items[i-1].K, dc.Items[i].K) >= 0 {
			c.problem("keys not strictly ascending in-order at position %d (%q then %q)", i, dc.Items[i-1].K, dc.Items[i].K)
			break
		}
	}
	dc.Problems = c.prob
	return dc
}

// Decode reads the state durable in img[:maxEnd]: the last complete root
// record and everything reachable from it.  cmpOf gives the comparator
// id of each collection name (the file does not record it).
func Decode(img []byte, maxEnd int64, cmpOf func(name string) int) *Decoded {
	rec := FindLastRoot(img, maxEnd)
	if rec == nil {
		return nil
	}
	return DecodeAt(img, rec, cmpOf)
}

func DecodeAt(img []byte, rec *DRootRec, cmpOf func(name string) int) *Decoded {
	d := &Decoded{Rec: rec, Colls: map[string]*DColl{}}
	for _, name := range rec.Names {
		cmp := 0
		if cmpOf != nil {
			cmp = cmpOf(name)
		}
		d.Colls[name] = DecodeColl(img, name, rec.Locs[name], rec.Off, cmp)
	}
	return d
}

func (d *Decoded) State(cmpOf func(name string) int) MState {
	st := MState{Colls: map[string]*MColl{}}
	if d == nil {
		return st
	}
	for name, dc := range d.Colls {
		cmp := 0
		if cmpOf != nil {
			cmp = cmpOf(name)
		}
		st.Colls[name] = &MColl{Cmp: cmp, Items: dc.Items}
	}
	return st
}

func (d *Decoded) Problems() []string {
	var res []string
	if d == nil {
		return nil
	}
	for _, name := range d.Rec.Names {
		for _, p := range d.Colls[name].Problems {
			res = append(res, fmt.Sprintf("collection %q: %s", name, p))
		}
	}
	return res
}

// Reachable returns the byte ranges of all records reachable from the
// decoded root (items and nodes), as a map offset -> length.
func (d *Decoded) Reachable() (items map[int64]uint32, nodes map[int64]uint32) {
	items = map[int64]uint32{}
	nodes = map[int64]uint32{}
	var rec func(n *DNode)
	rec = func(n *DNode) {
		if n == nil {
			return
		}
		nodes[n.Loc.Off] = n.Loc.Len
		if n.Item != nil {
			items[n.Item.Loc.Off] = n.Item.Loc.Len
		}
		rec(n.Left)
		rec(n.Right)
	}
	for _, dc := range d.Colls {
		rec(dc.Root)
	}
	return
}
