package sim

import (
	"fmt"
	"strings"

	"github.com/cbehopkins/gkvlite"
)

// Generation of concurrent plans and the engines of C05 / C18.

var conNamePool = []string{"a", "ab", "abc", "b", "idx", "idx2", "main", "main.idx", ""}

var hookSites = []string{"get-pinned", "walk-pinned", "visit-pinned", "totals-pinned", "set-before-cas", "set-after-cas",
	"del-before-cas", "del-after-cas", "root-decref", "close-coll", "flush-pin", "flush-write", "flush-roots", "snapshot-coll",
	"item-cas", "node-set", "visit-unwind", "iter-wake", "iter-drain"}

type conGen struct {
	r      *Rng
	colls  []collCfg
	model  map[string]*MColl
	valCtr int
	used   map[int32]bool
}

func (g *conGen) value() *ValSpec {
	g.valCtr++
	tag := fmt.Sprintf("c%d.", g.valCtr)
	l := len(tag) + g.r.Intn(12)
	if g.r.Bool(0.1) {
		l = g.r.Range(100, 300)
	}
	return &ValSpec{Tag: tag, Len: l}
}

func (g *conGen) pickColl() *collCfg { return &g.colls[g.r.Intn(len(g.colls))] }

func (g *conGen) key(cc *collCfg, present float64) []byte {
	mc := g.model[cc.Name]
	if mc != nil && len(mc.Items) > 0 && g.r.Bool(present) {
		return cloneBytes(mc.Items[g.r.Intn(len(mc.Items))].K)
	}
	return cloneBytes(cc.Keys[g.r.Intn(len(cc.Keys))])
}

func (g *conGen) prio() int32 {
	for {
		p := int32(g.r.Uint64() & 0x7fffffff)
		if !g.used[p] {
			g.used[p] = true
			return p
		}
	}
}

func (g *conGen) mutation() ConOp {
	cc := g.pickColl()
	mc := g.model[cc.Name]
	switch x := g.r.Float(); {
	case x < 0.55:
		k := g.key(cc, 0.35)
		op := ConOp{Kind: "setitem", C: cc.Name, Key: k, Val: g.value(), Prio: g.prio()}
		g.model[cc.Name] = mc.Set(MItem{K: k, V: op.Val.Bytes(), P: op.Prio})
		return op
	case x < 0.65:
		k := g.key(cc, 0.35)
		op := ConOp{Kind: "set", C: cc.Name, Key: k, Val: g.value()}
		g.model[cc.Name] = mc.Set(MItem{K: k, V: op.Val.Bytes(), P: PrioUnknown})
		return op
	case x < 0.9:
		k := g.key(cc, 0.8)
		g.model[cc.Name], _ = mc.Delete(k)
		return ConOp{Kind: "del", C: cc.Name, Key: k}
	}
	return ConOp{Kind: "evict", C: cc.Name, N: g.r.Range(1, 6)}
}

func (g *conGen) target(cc *collCfg) ([]byte, bool) {
	mc := g.model[cc.Name]
	switch g.r.Intn(6) {
	case 0:
		return []byte{}, false
	case 1:
		if len(mc.Items) > 0 {
			k := cloneBytes(mc.Items[g.r.Intn(len(mc.Items))].K)
			return append(k, byte(g.r.Intn(256))), false
		}
	case 2:
		return nil, true
	}
	return g.key(cc, 0.6), false
}

func (g *conGen) read(allowSnap bool, allowIter bool) ConOp {
	cc := g.pickColl()
	mc := g.model[cc.Name]
	kinds := []string{"get", "get", "getitem", "exist", "min", "max", "totals", "visit", "visit", "visit", "allocstats"}
	if allowIter {
		kinds = append(kinds, "iter", "iter")
	}
	if allowSnap {
		kinds = append(kinds, "snapshot", "snapshot")
	}
	k := kinds[g.r.Intn(len(kinds))]
	op := ConOp{Kind: k, C: cc.Name}
	switch k {
	case "get", "getitem", "exist":
		op.Key = g.key(cc, 0.7)
		op.WV = g.r.Bool(0.5)
	case "min", "max":
		op.WV = g.r.Bool(0.5)
	case "allocstats":
		op.N = g.r.Intn(2)
	case "visit":
		op.Key, op.KeyNil = g.target(cc)
		op.Desc = g.r.Bool(0.4)
		op.WV = g.r.Bool(0.5)
		if g.r.Bool(0.3) {
			op.Stop = g.r.Range(1, len(mc.Items)+1)
		}
	case "iter":
		op.Key, op.KeyNil = g.target(cc)
		op.Desc = g.r.Bool(0.4)
		op.WV = g.r.Bool(0.5)
		op.Script = (&Gen{r: g.r}).iterScript(len(mc.Items))
	case "snapshot":
		op.C = ""
		n := g.r.Range(1, 4)
		for i := 0; i < n; i++ {
			sub := g.read(false, false)
			if g.r.Bool(0.6) {
				// whole-collection visits make the version unambiguous
				sub = ConOp{Kind: "visit", C: sub.C, Key: []byte{}, WV: true}
				if sub.C == "" {
					sub.C = g.pickColl().Name
				}
			}
			op.Sub = append(op.Sub, sub)
		}
		if g.r.Bool(0.25) {
			// CopyTo from the snapshot while the original keeps changing
			op.Sub = append(op.Sub, ConOp{Kind: "copyto", N: []int{-1, 1, 2, 5, 100}[g.r.Intn(5)]})
		}
	}
	return op
}

// genConPlan draws a concurrent plan.  mode "C05" or "C18".
func genConPlan(seed uint64, mode string) *ConPlan {
	r := NewRng(Mix(seed, 0xc05))
	g := &conGen{r: r, model: map[string]*MColl{}, used: map[int32]bool{}}
	cp := &ConPlan{}
	mem := r.Bool(0.2)
	cbs := []int{0, 0, 0, CBAlloc, CBValLength | CBValWrite | CBValRead, CBBeforeWrite | CBAfterRead, CBAll &^ CBRef}
	cb := cbs[r.Intn(len(cbs))]
	if mode == "C15" {
		// reference counting under schedules
		cb = []int{CBAlloc | CBRef, CBRef, CBAll}[r.Intn(3)]
		// quiet runs: the mutator only evicts, readers take no snapshots;
		// every item starts out flushed and not cached
		cp.Quiet = r.Bool(0.4)
		if cp.Quiet {
			mem = false
		}
	}
	open := Op{Kind: "open", S: 0, D: 0, CB: cb, N: r.Range(2, 9), Mem: mem}
	cp.Setup = append(cp.Setup, open)
	nc := r.Range(1, 3)
	perm := r.Perm(len(conNamePool))
	kg := &Gen{r: r}
	for i := 0; i < nc; i++ {
		cc := collCfg{Name: conNamePool[perm[i]], Keys: kg.genKeys(r.Range(4, 14))}
		if r.Bool(0.25) {
			cc.Cmp = r.Intn(NumCmp)
		}
		g.colls = append(g.colls, cc)
		g.model[cc.Name] = &MColl{Cmp: cc.Cmp}
		cp.Setup = append(cp.Setup, Op{Kind: "setcoll", S: 0, C: cc.Name, Cmp: cc.Cmp})
		// pre-load
		n := r.Range(0, len(cc.Keys))
		for j := 0; j < n; j++ {
			k := cloneBytes(cc.Keys[j])
			v := g.value()
			p := g.prio()
			cp.Setup = append(cp.Setup, Op{Kind: "setitem", S: 0, C: cc.Name, Key: k, Val: v, Prio: p})
			g.model[cc.Name] = g.model[cc.Name].Set(MItem{K: k, V: v.Bytes(), P: p})
		}
	}
	// A collection no reader touches: the mutator re-registers it
	// (SetCollection on an existing name: new handle, old one closed, same
	// contents) while Flush, Snapshot and CopyTo walk the collection map.
	churn := ""
	if mode == "C05" && r.Bool(0.35) {
		churn = conNamePool[perm[nc]] + "~"
		cp.Setup = append(cp.Setup, Op{Kind: "setcoll", S: 0, C: churn})
		for j := r.Range(1, 4); j > 0; j-- {
			cp.Setup = append(cp.Setup, Op{Kind: "setitem", S: 0, C: churn, Key: []byte(fmt.Sprintf("c%d", j)), Val: g.value(), Prio: g.prio()})
		}
	}
	if !mem {
		setupKind := r.Intn(4)
		if cp.Quiet && setupKind < 2 {
			setupKind += 2
		}
		switch setupKind {
		case 0:
		case 1:
			cp.Setup = append(cp.Setup, Op{Kind: "flush", S: 0})
		case 2:
			cp.Setup = append(cp.Setup, Op{Kind: "flush", S: 0})
			for _, cc := range g.colls {
				cp.Setup = append(cp.Setup, Op{Kind: "evict", S: 0, C: cc.Name, N: r.Range(1, 16)})
			}
		case 3:
			cp.Setup = append(cp.Setup, Op{Kind: "flush", S: 0}, Op{Kind: "reopen", S: 0, CB: cb | CBKeyCompare, N: 1})
		}
	}
	if cp.Quiet {
		// Load every node before the concurrent phase (key-only visits; they
		// evict the items again on their way back).  Two goroutines that load
		// the same *node* at the same time both install their copy
		// (nodeLoc.read has no CAS): the loser keeps walking its orphaned copy
		// and an item it loads there is never released.  That happens on the
		// unchanged tree (DESIGN 10.16, observation outside C15's quantifier);
		// with the nodes cached the quiet runs are exact about items.
		for _, cc := range g.colls {
			cp.Setup = append(cp.Setup, Op{Kind: "visit", S: 0, C: cc.Name, Key: []byte{}, Var: "ex"},
				Op{Kind: "visit", S: 0, C: cc.Name, Key: []byte{}, Var: "ex", Desc: true})
		}
	}
	wts := []float64{0.2, 1, 1, 1, 3}
	// tasks
	if mode == "C18" {
		// consumers of iterators; the mutator is one of them in some runs
		nt := r.Range(1, 3)
		mutIsConsumer := r.Bool(0.6)
		for t := 0; t < nt; t++ {
			task := ConTask{Name: fmt.Sprintf("r%d", t), Role: "reader", Weight: wts[r.Intn(len(wts))]}
			isMut := t == 0 && mutIsConsumer
			if isMut {
				task.Name, task.Role = "m", "mutator"
			}
			nops := r.Range(2, 8)
			for i := 0; i < nops; i++ {
				cc := g.pickColl()
				op := ConOp{Kind: "iter", C: cc.Name, Desc: r.Bool(0.4), WV: r.Bool(0.5)}
				op.Key, op.KeyNil = g.target(cc)
				op.Script = kg.iterScript(len(g.model[cc.Name].Items))
				ns := r.Intn(4)
				for j := 0; j < ns; j++ {
					if isMut && r.Bool(0.7) {
						op.Sub = append(op.Sub, g.mutation())
					} else {
						op.Sub = append(op.Sub, g.read(false, false))
					}
				}
				task.Ops = append(task.Ops, op)
				if isMut && r.Bool(0.5) {
					task.Ops = append(task.Ops, g.mutation())
				}
			}
			cp.Tasks = append(cp.Tasks, task)
		}
		if !mutIsConsumer && r.Bool(0.7) {
			task := ConTask{Name: "m", Role: "mutator", Weight: wts[r.Intn(len(wts))]}
			for i := r.Range(3, 15); i > 0; i-- {
				task.Ops = append(task.Ops, g.mutation())
			}
			cp.Tasks = append(cp.Tasks, task)
		}
	} else {
		mt := ConTask{Name: "m", Role: "mutator", Weight: wts[r.Intn(len(wts))]}
		for i := r.Range(6, 36); i > 0; i-- {
			if cp.Quiet {
				mt.Ops = append(mt.Ops, ConOp{Kind: "evict", C: g.pickColl().Name, N: r.Range(1, 6)})
				continue
			}
			mt.Ops = append(mt.Ops, g.mutation())
			if churn != "" && r.Bool(0.12) {
				if r.Bool(0.3) {
					// remove it; the next setcoll re-creates it empty
					mt.Ops = append(mt.Ops, ConOp{Kind: "rmcoll", C: churn})
				} else {
					mt.Ops = append(mt.Ops, ConOp{Kind: "setcoll", C: churn})
				}
			}
		}
		cp.Tasks = append(cp.Tasks, mt)
		if !mem && r.Bool(0.85) && !cp.Quiet {
			ft := ConTask{Name: "f", Role: "flusher", Weight: wts[r.Intn(len(wts))]}
			for i := r.Range(1, 5); i > 0; i-- {
				if r.Bool(0.25) {
					// Collection.Write: items and nodes without a root record
					ft.Ops = append(ft.Ops, ConOp{Kind: "write", C: g.pickColl().Name})
				}
				ft.Ops = append(ft.Ops, ConOp{Kind: "flush"})
			}
			cp.Tasks = append(cp.Tasks, ft)
		}
		nr := r.Range(1, 4)
		for t := 0; t < nr; t++ {
			rt := ConTask{Name: fmt.Sprintf("r%d", t), Role: "reader", Weight: wts[r.Intn(len(wts))]}
			for i := r.Range(3, 14); i > 0; i-- {
				op := g.read(!cp.Quiet, true)
				if cp.Quiet && op.Kind == "get" {
					// Get keeps a reference the caller cannot release (known
					// finding F11); GetItem is the same lookup with a handle
					op.Kind, op.WV = "getitem", true
				}
				rt.Ops = append(rt.Ops, op)
			}
			cp.Tasks = append(cp.Tasks, rt)
		}
	}
	// armed park points (swarm)
	switch r.Intn(5) {
	case 0:
		cp.Armed = []string{"disk"}
	case 1:
		cp.Armed = []string{"disk", "cmp", "visitor", "cb", "lock"}
		for _, h := range hookSites {
			cp.Armed = append(cp.Armed, "hook-"+h)
		}
	default:
		for _, c := range []string{"disk", "cmp", "visitor", "cb"} {
			if r.Bool(0.6) {
				cp.Armed = append(cp.Armed, c)
			}
		}
		for _, h := range hookSites {
			if r.Bool(0.5) {
				cp.Armed = append(cp.Armed, "hook-"+h)
			}
		}
		// every acquisition of rootLock and of the free-list locks
		if r.Bool(0.3) {
			cp.Armed = append(cp.Armed, "lock")
		}
	}
	cp.Stay = []float64{0.3, 1, 1, 3, 10}[r.Intn(5)]
	return cp
}

// RunConProp is the engine of C05 and C18 (concurrent part).
func RunConProp(plan *Plan, prop string) *RunResult {
	cp := plan.Con
	if cp == nil {
		cp = genConPlan(plan.Seed, prop)
		plan.Con = cp
	}
	res, c := RunCon(plan, cp, prop)
	res.Evals = 1
	if c == nil {
		return res
	}
	w := res.World
	initial := c.h.M.Clone()
	hi := c.checkHistory()
	if prop == "C19" {
		// only the read-range monitor is judged here
		res.Viol = w.Viol
		res.Sig = MixStr(fmt.Sprint(plan.Sched))
		res.NonTriv = w.Stats.Probes["keyonly-op-read-item-from-disk"] > 0 && w.Stats.Probes["context-switches"] > 2
		return res
	}
	if prop == "C15" {
		// only the reference-count clauses are judged here
		c.viol = nil
		hi = nil
		if len(w.Ledger.Negative) > 0 {
			c.fail("refcount-negative", "run", "under a schedule of concurrent readers an item's reference count dropped below zero: %s", w.Ledger.Negative[0])
		}
		// Not judged under schedules: ItemAddRef on an item whose count had
		// reached zero.  A lookup reads the cached item pointer and takes its
		// reference later; an eviction by another goroutine in between releases
		// the node's reference first.  That window exists on the pinned tree
		// (EvictSomeItems against a reader's GetItem) and cannot be closed
		// without an atomic acquire in the callback API; C15 quantifies over
		// histories, where the sequential engine does judge it.
		if len(w.Ledger.Resurrected) > 0 {
			w.probe("concurrent-addref-after-zero-observed")
		}
		for _, ev := range c.evs {
			if ev.Panic != "" && c.viol == nil && strings.Contains(ev.Panic, "refcount") {
				c.fail("panic", ev.Op.Kind, "task %s: %s panicked: %s", ev.Task, ev.Op.String(), ev.Panic)
			}
		}
		if cp.Quiet && c.viol == nil && !w.Aborted {
			c.quietBalance()
		}
		res.Viol = c.viol
		res.Sig = MixStr(fmt.Sprint(plan.Sched))
		res.NonTriv = w.Ledger.AddRefs > 0 && w.Stats.Probes["context-switches"] > 2
		return res
	}
	if prop == "C05" {
		c.checkFlushes(hi)
		c.checkCrashSamples(NewRng(Mix(plan.Seed, 0xc4a5)), 6)
	}
	c.finalAudit(hi)
	// pins released: every collection's current version is referenced once
	if c.viol == nil {
		for _, name := range c.h.M.Names() {
			col := c.h.S.GetCollection(name)
			if col == nil {
				continue
			}
			if refs, _ := gkvlite.VerifRootRefs(col); refs != 1 {
				c.fail("pin-not-released", "run", "after all tasks finished the current version of %q is referenced %d times (want 1): a reader or iterator producer never released its pin", name, refs)
				break
			}
		}
	}
	res.Viol = c.viol
	// traces for samples / signature
	var sigParts []string
	for _, t := range cp.Tasks {
		for _, op := range t.Ops {
			sigParts = append(sigParts, t.Name+":"+op.Kind)
		}
	}
	h := MixStr(fmt.Sprint(sigParts))
	for _, n := range plan.Sched {
		h = Mix(h, MixStr(n))
	}
	res.Sig = h
	res.NonTriv = w.Stats.Probes["read-window-spans-publication"] > 0 || (prop == "C18" && w.Stats.Probes["context-switches"] > 2)
	if res.Viol == nil && prop == "C05" {
		// second opinion outside the bubble (porcupine uses real timers)
		h0 := c.h.M
		c.h.M = initial
		ops := c
		res.Post = func() *Violation {
			saved := ops.h.M
			ops.h.M = initial
			defer func() { ops.h.M = saved }()
			verdict, n := ops.porcupineCheck()
			w.Stats.Probes["porcupine-ops"] += n
			switch verdict {
			case "illegal":
				return &Violation{Prop: prop, Oracle: "porcupine-illegal", OpKind: "history", Msg: "the per-key Get/Set/Delete/Exist history is not linearizable against a register-per-key model (porcupine)"}
			case "unknown":
				w.Stats.Probes["porcupine-unknown"]++
			}
			return nil
		}
		c.h.M = h0
	}
	return res
}

// ConSample renders a concurrent plan for the evidence samples.
func ConSample(cp *ConPlan, sched []string) []string {
	var res []string
	res = append(res, fmt.Sprintf("setup: %d operations; armed park points: %v; stay=%.1f", len(cp.Setup), cp.Armed, cp.Stay))
	for _, t := range cp.Tasks {
		line := fmt.Sprintf("task %s (%s, weight %.1f):", t.Name, t.Role, t.Weight)
		for i, op := range t.Ops {
			if i >= 12 {
				line += fmt.Sprintf(" ... (%d more)", len(t.Ops)-i)
				break
			}
			line += " " + op.String()
		}
		res = append(res, line)
	}
	n := len(sched)
	if n > 60 {
		n = 60
	}
	res = append(res, fmt.Sprintf("schedule (%d steps, first %d): %v", len(sched), n, sched[:n]))
	return res
}

// quietBalance is the end-of-run clause of C15 for quiet concurrent plans: no
// version was superseded during the concurrent phase (the mutator only
// evicted), every reference handed to a reader is known, so after closing the
// store and dropping the readers' references every count must be zero, under
// every schedule.  (Seeded change C15-r9-2: the loser of the item CAS in
// itemLoc.read drops its private copy without releasing it.)
func (c *conRun) quietBalance() {
	w := c.w
	w.probe("quiet-concurrent-balance-judged")
	for _, h := range w.Stores {
		if h != nil && h.S != nil && !h.Closed {
			h := h
			w.protect("releaseall", func() { h.S.Close() })
			h.Closed = true
		}
	}
	if w.Viol != nil {
		c.viol = w.Viol
		return
	}
	if len(w.Ledger.Negative) > 0 {
		c.fail("refcount-negative", "releaseall", "closing the store after a concurrent phase took an item's reference count below zero: %s", w.Ledger.Negative[0])
		return
	}
	for it, n := range w.Ledger.Harness {
		w.Ledger.Count[it] -= n
	}
	w.Ledger.Harness = map[*gkvlite.Item]int{}
	if out := w.Ledger.Outstanding(); len(out) > 0 {
		c.fail("refcount-unbalanced", "releaseall", "readers and an evicting mutator only (no version superseded): after closing the store and dropping the readers' references %d item(s) are not back to zero; e.g. %s", len(out), out[0])
	}
}
