package sim

import (
	"fmt"
	"sort"
)

// C07: histories are sampled; inside each history one fault is placed at
// every individual StoreFile call of every operation (k = 1..all), with
// every fault kind of that call class; each placement is one re-execution
// of the history, which then continues after the fault clears.

// faultable: operations whose API can report an error.
func faultable(kind string) bool {
	switch kind {
	case "open", "reopen", "get", "getitem", "min", "max", "totals", "visit", "iter", "len", "blockvisit", "randvisit",
		"set", "setitem", "del", "flush", "revert", "copyto", "write":
		return true
	}
	return false
}

type faultCase struct {
	Op    int
	Fault Fault
}

func faultCases(w *World, trace []Op, r *Rng, thorough bool) []faultCase {
	var cases []faultCase
	for oi, op := range trace {
		if oi >= len(w.OpIO) || !faultable(op.Kind) || len(op.Nested) > 0 {
			continue
		}
		var disks []int
		for di := range w.OpIO[oi] {
			disks = append(disks, di)
		}
		sort.Ints(disks)
		for _, di := range disks {
			cnt := w.OpIO[oi][di]
			for _, class := range []byte{'R', 'W', 'S', 'T'} {
				n := cnt[class]
				for k := 1; k <= n; k++ {
					switch class {
					case 'R':
						cases = append(cases, faultCase{oi, Fault{Disk: di, Kind: FReadErr, K: k}})
						cases = append(cases, faultCase{oi, Fault{Disk: di, Kind: FReadShort, K: k, N: r.Intn(16)}})
						if r.Bool(0.15) {
							cases = append(cases, faultCase{oi, Fault{Disk: di, Kind: FReadErr, K: k, Sticky: true}})
						}
					case 'W':
						cases = append(cases, faultCase{oi, Fault{Disk: di, Kind: FWriteErr, K: k}})
						// torn lengths: the write's length is found from the log
						wl := writeLen(w, oi, di, k)
						if wl > 1 {
							if thorough && wl <= 128 {
								for t := 1; t < wl; t++ {
									cases = append(cases, faultCase{oi, Fault{Disk: di, Kind: FWriteTorn, K: k, N: t}})
								}
							} else {
								for _, t := range []int{1, wl / 2, wl - 1, 1 + r.Intn(wl-1)} {
									if t >= 1 && t < wl {
										cases = append(cases, faultCase{oi, Fault{Disk: di, Kind: FWriteTorn, K: k, N: t}})
									}
								}
							}
						}
						if r.Bool(0.15) {
							cases = append(cases, faultCase{oi, Fault{Disk: di, Kind: FWriteErr, K: k, Sticky: true}})
						}
					case 'S':
						cases = append(cases, faultCase{oi, Fault{Disk: di, Kind: FStatErr, K: k}})
					case 'T':
						cases = append(cases, faultCase{oi, Fault{Disk: di, Kind: FTruncErr, K: k}})
					}
				}
			}
		}
	}
	return cases
}

// writeLen finds the length of the k-th WriteAt of operation oi on disk di.
func writeLen(w *World, oi, di, k int) int {
	cnt := 0
	for i := range w.Disks[di].Log {
		e := &w.Disks[di].Log[i]
		if e.Op == oi && e.Kind == 'W' {
			cnt++
			if cnt == k {
				return e.Len
			}
		}
	}
	return 0
}

// faultedTrace builds the history with one fault placed, an audit right
// after the failed call, the recovery step the failed call requires, and
// a final flush / re-open / audit.
func faultedTrace(trace []Op, c faultCase, extra []faultCase) []Op {
	var ops []Op
	for i, op := range trace {
		if op.Kind == "releaseall" {
			continue
		}
		if i == c.Op {
			op.Faults = append(append([]Fault{}, op.Faults...), c.Fault)
		}
		for _, e := range extra {
			if i == e.Op {
				op.Faults = append(append([]Fault{}, op.Faults...), e.Fault)
			}
		}
		ops = append(ops, op)
		hit := i == c.Op
		for _, e := range extra {
			hit = hit || i == e.Op
		}
		if hit {
			switch op.Kind {
			case "open":
				ops = append(ops, Op{Kind: "open", S: op.S, D: op.D, CB: op.CB, N: op.N, Mem: op.Mem})
			case "reopen":
				ops = append(ops, Op{Kind: "open", S: op.S, D: -1, CB: op.CB, N: 3})
			case "revert":
				ops = append(ops, Op{Kind: "reopen", S: op.S, CB: -1})
			}
			ops = append(ops, Op{Kind: "audit", S: -1, Var: "visit"})
		}
	}
	return ops
}

// RunFault is the engine of C07.
func RunFault(plan *Plan, thorough bool) *RunResult {
	p := Profiles()["C07"]
	if len(plan.Ops) > 0 {
		r := RunSeq(plan, p)
		r.Evals = 1
		return r
	}
	p.recordIO = true
	base := RunSeq(plan, p)
	base.Evals = 1
	if base.Viol != nil || base.World.Aborted {
		return base
	}
	w := base.World
	trace := w.Trace
	// final durability probe appended to every faulted history
	tail := []Op{}
	for _, h := range w.Stores {
		if h != nil && !h.Snap && h.Disk >= 0 && !h.Closed {
			tail = append(tail, Op{Kind: "flush", S: h.ID}, Op{Kind: "reopen", S: h.ID, CB: -1})
		}
	}
	tail = append(tail, Op{Kind: "audit", S: -1, Var: "visit"})
	rng := NewRng(Mix(plan.Seed, 0xfa17))
	cases := faultCases(w, trace, rng, thorough)
	limit := 60
	if thorough {
		limit = 1 << 30
	}
	if len(cases) > limit {
		// a seeded sample, stratified by (operation, call class) so that the
		// few reads inside a mutation weigh as much as the many writes of a flush
		groups := map[[2]int][]faultCase{}
		var keys [][2]int
		for _, c := range cases {
			k := [2]int{c.Op, int(faultClass(c.Fault.Kind))}
			if _, ok := groups[k]; !ok {
				keys = append(keys, k)
			}
			groups[k] = append(groups[k], c)
		}
		sel := make([]faultCase, 0, limit)
		for len(sel) < limit && len(keys) > 0 {
			perm := rng.Perm(len(keys))
			var next [][2]int
			for _, pi := range perm {
				k := keys[pi]
				g := groups[k]
				if len(g) == 0 {
					continue
				}
				j := rng.Intn(len(g))
				sel = append(sel, g[j])
				g[j] = g[len(g)-1]
				groups[k] = g[:len(g)-1]
				if len(groups[k]) > 0 {
					next = append(next, k)
				}
				if len(sel) >= limit {
					break
				}
			}
			keys = next
		}
		sort.SliceStable(sel, func(a, b int) bool { return sel[a].Op < sel[b].Op })
		cases = sel
	}
	stats := base.Stats
	fired := map[string]int{}
	run := func(ops []Op) *RunResult {
		fr := RunSeq(&Plan{Prop: plan.Prop, Profile: plan.Profile, Seed: plan.Seed, Ops: ops}, p)
		base.Evals++
		stats.FaultRuns++
		for k, v := range fr.Fired {
			fired[k] += v
		}
		for k, v := range fr.Stats.Probes {
			stats.Probes[k] += v
		}
		if fr.Viol != nil {
			fr.Plan = &Plan{Prop: plan.Prop, Profile: plan.Profile, Seed: plan.Seed, Ops: ops}
			fr.Evals = base.Evals
			fr.Stats.FaultRuns = stats.FaultRuns
			return fr
		}
		return nil
	}
	for _, c := range cases {
		ops := append(faultedTrace(trace, c, nil), tail...)
		if fr := run(ops); fr != nil {
			return fr
		}
	}
	// a few runs with 2-3 faults in different operations
	if len(cases) >= 3 {
		n := 3
		if thorough {
			n = 20
		}
		for i := 0; i < n; i++ {
			a := cases[rng.Intn(len(cases))]
			b := cases[rng.Intn(len(cases))]
			c := cases[rng.Intn(len(cases))]
			extra := []faultCase{}
			if b.Op != a.Op {
				extra = append(extra, b)
			}
			if c.Op != a.Op && c.Op != b.Op && rng.Bool(0.5) {
				extra = append(extra, c)
			}
			ops := append(faultedTrace(trace, a, extra), tail...)
			if fr := run(ops); fr != nil {
				return fr
			}
		}
	}
	base.Fired = fired
	base.NonTriv = stats.FaultRuns > 0 && len(trace) > 5
	_ = fmt.Sprintf
	return base
}
