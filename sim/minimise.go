package sim

import (
	"testing"
)

// Minimise shrinks a failing plan while the same violation class
// (property, oracle, operation kind) persists.  Every candidate runs in a
// fresh bubble from canonical global state.

func sameClass(a, b *Violation) bool {
	if a == nil || b == nil {
		return false
	}
	return a.Prop == b.Prop && a.Oracle == b.Oracle
}

func Minimise(t *testing.T, plan *Plan) *Plan {
	if plan.Con != nil {
		return MinimiseCon(t, plan)
	}
	best := *plan
	target := plan.Viol
	budget := 3000
	try := func(ops []Op, extra *Extra) (*Violation, []Op, bool) {
		if budget <= 0 {
			return nil, nil, false
		}
		budget--
		cand := &Plan{Prop: plan.Prop, Profile: plan.Profile, Seed: plan.Seed, Ops: ops, Extra: extra, Engine: plan.Engine}
		r := runOne(t, cand)
		if sameClass(r.Viol, target) {
			return r.Viol, ops, true
		}
		return nil, nil, false
	}
	// confirm the explicit trace reproduces at all
	v, _, ok := try(best.Ops, best.Extra)
	if !ok {
		best.Note = "explicit trace did not reproduce the violation class; unminimised"
		return &best
	}
	best.Viol = v
	// 1. truncate after the violating step
	if v.Op+1 < len(best.Ops) && best.Extra == nil {
		if v2, ops, ok := try(best.Ops[:v.Op+1], best.Extra); ok {
			best.Ops, best.Viol = ops, v2
		}
	}
	// 2. ddmin over top-level operations
	n := 2
	for len(best.Ops) >= 2 && budget > 0 {
		chunk := (len(best.Ops) + n - 1) / n
		reduced := false
		for start := 0; start < len(best.Ops); start += chunk {
			end := start + chunk
			if end > len(best.Ops) {
				end = len(best.Ops)
			}
			cand := append(append([]Op{}, best.Ops[:start]...), best.Ops[end:]...)
			if len(cand) == 0 {
				continue
			}
			if v2, ops, ok := try(cand, best.Extra); ok {
				best.Ops, best.Viol = ops, v2
				n = max(n-1, 2)
				reduced = true
				break
			}
		}
		if !reduced {
			if chunk <= 1 {
				break
			}
			n = min(n*2, len(best.Ops))
		}
	}
	// 3. simplify individual operations
	for i := 0; i < len(best.Ops) && budget > 0; i++ {
		op := best.Ops[i]
		var cands []Op
		if len(op.Nested) > 0 {
			c := op
			c.Nested = nil
			cands = append(cands, c)
			for j := range op.Nested {
				c := op
				c.Nested = append(append([]NestedOp{}, op.Nested[:j]...), op.Nested[j+1:]...)
				cands = append(cands, c)
			}
		}
		if len(op.Faults) > 1 {
			for j := range op.Faults {
				c := op
				c.Faults = append(append([]Fault{}, op.Faults[:j]...), op.Faults[j+1:]...)
				cands = append(cands, c)
			}
		}
		if op.Val != nil && op.Val.Raw == nil && op.Val.Len > len(op.Val.Tag) {
			c := op
			c.Val = &ValSpec{Tag: op.Val.Tag, Len: len(op.Val.Tag)}
			cands = append(cands, c)
		}
		if op.Kind == "evict" && op.N > 1 {
			c := op
			c.N = 1
			cands = append(cands, c)
		}
		if op.CB != 0 && (op.Kind == "open" || op.Kind == "reopen") {
			c := op
			c.CB = 0
			cands = append(cands, c)
		}
		for _, c := range cands {
			ops := append([]Op{}, best.Ops...)
			ops[i] = c
			if v2, ops2, ok := try(ops, best.Extra); ok {
				best.Ops, best.Viol = ops2, v2
				i-- // try to simplify the same op further
				break
			}
		}
	}
	// 4. one more ddmin pass with single-op removal
	for i := len(best.Ops) - 1; i >= 0 && budget > 0 && len(best.Ops) > 1; i-- {
		if i >= len(best.Ops) {
			continue
		}
		cand := append(append([]Op{}, best.Ops[:i]...), best.Ops[i+1:]...)
		if v2, ops, ok := try(cand, best.Extra); ok {
			best.Ops, best.Viol = ops, v2
		}
	}
	return &best
}

func cloneCon(cp *ConPlan) *ConPlan {
	n := *cp
	n.Tasks = nil
	for _, t := range cp.Tasks {
		nt := t
		nt.Ops = append([]ConOp{}, t.Ops...)
		n.Tasks = append(n.Tasks, nt)
	}
	n.Setup = append([]Op{}, cp.Setup...)
	n.Armed = append([]string{}, cp.Armed...)
	return &n
}

// MinimiseCon shrinks a failing concurrent plan: whole tasks, then
// operations of tasks, then the armed park points, then context switches
// of the schedule; the schedule is replayed tolerantly.
func MinimiseCon(t *testing.T, plan *Plan) *Plan {
	best := *plan
	best.FixedSched = true
	target := plan.Viol
	budget := 600
	try := func(cp *ConPlan, sched []string) (*Violation, []string, bool) {
		if budget <= 0 {
			return nil, nil, false
		}
		budget--
		cand := &Plan{Prop: plan.Prop, Profile: plan.Profile, Seed: plan.Seed, Con: cp, Sched: append([]string{}, sched...), FixedSched: true}
		r := runOne(t, cand)
		if sameClass(r.Viol, target) {
			return r.Viol, cand.Sched, true
		}
		return nil, nil, false
	}
	v, sc, ok := try(best.Con, best.Sched)
	if !ok {
		best.Note = "recorded schedule did not reproduce the violation class in-process; unminimised"
		return &best
	}
	best.Viol, best.Sched = v, sc
	// serial execution of tasks?
	{
		cp := cloneCon(best.Con)
		cp.Serial = true
		if v, sc, ok := try(cp, []string{}); ok {
			best.Con, best.Viol, best.Sched = cp, v, sc
		}
	}
	// drop whole tasks
	for i := len(best.Con.Tasks) - 1; i >= 0 && len(best.Con.Tasks) > 1; i-- {
		cp := cloneCon(best.Con)
		cp.Tasks = append(cp.Tasks[:i], cp.Tasks[i+1:]...)
		if v, sc, ok := try(cp, best.Sched); ok {
			best.Con, best.Viol, best.Sched = cp, v, sc
		}
	}
	// drop operations (halves, then single)
	for ti := range best.Con.Tasks {
		for chunk := len(best.Con.Tasks[ti].Ops) / 2; chunk >= 1; chunk /= 2 {
			for start := 0; start < len(best.Con.Tasks[ti].Ops); {
				cp := cloneCon(best.Con)
				ops := cp.Tasks[ti].Ops
				end := start + chunk
				if end > len(ops) {
					end = len(ops)
				}
				cp.Tasks[ti].Ops = append(append([]ConOp{}, ops[:start]...), ops[end:]...)
				if v, sc, ok := try(cp, best.Sched); ok {
					best.Con, best.Viol, best.Sched = cp, v, sc
				} else {
					start += chunk
				}
			}
		}
	}
	// drop setup operations (keep open and setcoll)
	for i := len(best.Con.Setup) - 1; i >= 0; i-- {
		k := best.Con.Setup[i].Kind
		if k == "open" || k == "setcoll" {
			continue
		}
		cp := cloneCon(best.Con)
		cp.Setup = append(cp.Setup[:i], cp.Setup[i+1:]...)
		if v, sc, ok := try(cp, best.Sched); ok {
			best.Con, best.Viol, best.Sched = cp, v, sc
		}
	}
	// disarm park points
	for i := len(best.Con.Armed) - 1; i >= 0; i-- {
		cp := cloneCon(best.Con)
		cp.Armed = append(cp.Armed[:i], cp.Armed[i+1:]...)
		if v, sc, ok := try(cp, best.Sched); ok {
			best.Con, best.Viol, best.Sched = cp, v, sc
		}
	}
	// fewer context switches: truncate the schedule (the rest runs in name order)
	for n := len(best.Sched) / 2; n >= 1 && budget > 0; n /= 2 {
		for len(best.Sched) > n {
			if v, sc, ok := try(best.Con, best.Sched[:len(best.Sched)-n]); ok {
				best.Viol, best.Sched = v, best.Sched[:len(best.Sched)-n]
				_ = sc
			} else {
				break
			}
		}
	}
	return &best
}
