package sim

import (
	"bytes"
	"encoding/binary"
	"fmt"
	"sort"
)

// ---------------------------------------------------------------------------
// Profiles: which operations a property's check generates and judges.

type Profile struct {
	Name      string
	Weights   map[string]float64
	Judge     []string // op kinds whose results are judged; nil: all
	AuditMode string   // "visit", "get", "both"
	MaxStores int
	AllowMem  bool
	MemOnlyP  float64 // probability that the (single) store is memory-only
	MinOps    int
	MaxOps    int
	LongRunP  float64
	LongOps   int
	MaxColls  int
	MaxKeys   int
	CBChoices []int // callback masks to draw from (nil: 0)
	CustomCmp bool
	AdvValues bool // adversarial value contents (magics, forged roots)
	BigValues bool
	Nested    bool // nested ops inside visitors
	Faults    bool
	ROHandleP float64 // probability of re-opening through a read-only handle
	Final     []string
	// oracles
	CheckReads, CheckWrites, CheckDecode, CheckStruct, CheckTree, CheckFree, CheckLedger, CheckPins bool
	PrioModes  []int
	SmallSetsP float64 // probability of a tiny key set (C13)
	Sizes      []int   // C16: explicit collection sizes to build
	recordIO   bool
	index      int
}

func baseWeights() map[string]float64 {
	return map[string]float64{
		"set": 2, "setitem": 8, "del": 4, "get": 4, "getitem": 4, "exist": 2, "min": 1, "max": 1, "totals": 2,
		"flush": 2, "evict": 2, "reopen": 0.7, "audit": 0.7, "misc": 0.4,
	}
}

func mergeW(a map[string]float64, b map[string]float64) map[string]float64 {
	r := map[string]float64{}
	for k, v := range a {
		r[k] = v
	}
	for k, v := range b {
		r[k] = v
	}
	return r
}

var allCB = []int{0, 0, CBAll, CBAlloc, CBValLength | CBValWrite | CBValRead, CBBeforeWrite | CBAfterRead, CBKeyCompare, CBAlloc | CBRef, CBValWrite, CBValRead, CBValLength}

func Profiles() map[string]*Profile {
	ps := map[string]*Profile{}
	add := func(p *Profile) { ps[p.Name] = p }
	add(&Profile{Name: "C01", Weights: mergeW(baseWeights(), map[string]float64{"fill": 0.3, "invalid": 0.8}),
		Judge:     []string{"set", "setitem", "del", "get", "getitem", "exist", "min", "max", "totals", "audit", "open", "reopen"},
		AuditMode: "get", MaxStores: 1, AllowMem: true, MemOnlyP: 0.3, MinOps: 10, MaxOps: 80, LongRunP: 0.03, LongOps: 1200,
		MaxColls: 4, MaxKeys: 40, CBChoices: allCB, CustomCmp: true, BigValues: true, PrioModes: []int{5, 0, 1, 2, 3, 4}})
	add(&Profile{Name: "C02", Weights: mergeW(baseWeights(), map[string]float64{"setcolls": 0.004, "faultyflush": 0.5, "write": 0.6, "flush": 4, "reopen": 2.5, "setcoll": 1, "rmcoll": 0.6, "audit": 0.5, "reopen2": 0.5}),
		Judge:     []string{"flush", "open", "reopen", "audit"},
		AuditMode: "visit", MaxStores: 1, MinOps: 10, MaxOps: 80, LongRunP: 0.03, LongOps: 800,
		MaxColls: 4, MaxKeys: 30, CBChoices: allCB, CustomCmp: true, BigValues: true, CheckDecode: true, PrioModes: []int{0, 1, 2, 4}})
	snapW := map[string]float64{"snapshot": 2, "snapclose": 1.5, "snapwrite": 0.6, "snaprevert": 0.5}
	add(&Profile{Name: "C04", Weights: mergeW(mergeW(baseWeights(), snapW), map[string]float64{"visit": 2, "setcoll": 0.3, "rmcoll": 0.3, "close": 0.15, "audit": 2, "revert": 0.15, "evict": 3}),
		AuditMode: "visit", MaxStores: 1, AllowMem: true, MemOnlyP: 0.2, MinOps: 10, MaxOps: 70, LongRunP: 0.03, LongOps: 600,
		MaxColls: 3, MaxKeys: 24, CBChoices: allCB, CustomCmp: true, Nested: true, CheckWrites: true, PrioModes: []int{0, 1, 2, 4}})
	add(&Profile{Name: "C06", Weights: mergeW(baseWeights(), map[string]float64{"fill": 0.3, "visit": 10, "iter": 3, "get": 0.5, "getitem": 0.5, "exist": 0, "min": 0.2, "max": 0.2, "totals": 0.2, "evict": 3, "audit": 0.3, "revert": 0.4, "setcoll": 0.3, "snapshot": 0.3, "snapclose": 0.2}),
		Judge:     []string{"visit", "iter", "audit"},
		AuditMode: "visit", MaxStores: 1, AllowMem: true, MemOnlyP: 0.2, MinOps: 10, MaxOps: 80, LongRunP: 0.03, LongOps: 800,
		MaxColls: 3, MaxKeys: 40, CBChoices: allCB, CustomCmp: true, PrioModes: []int{5, 0, 0, 1, 2, 3, 4}})
	add(&Profile{Name: "C08", Weights: mergeW(baseWeights(), map[string]float64{"snapshot": 0.6, "snapclose": 0.4, "setcolls": 0.004, "flush": 5, "revert": 4, "reopen": 1, "setcoll": 0.5, "rmcoll": 0.3, "audit": 0.5, "get": 1, "getitem": 1, "exist": 0.5}),
		Judge:     []string{"revert", "flush", "open", "reopen", "audit"},
		AuditMode: "visit", MaxStores: 1, AllowMem: true, MemOnlyP: 0.08, MinOps: 6, MaxOps: 60, LongRunP: 0.02, LongOps: 400,
		MaxColls: 3, MaxKeys: 16, CBChoices: allCB, CustomCmp: true, AdvValues: true, CheckDecode: true, PrioModes: []int{0, 1, 4}})
	add(&Profile{Name: "C09", Weights: mergeW(mergeW(baseWeights(), snapW), map[string]float64{"setcolls": 0.004, "visit": 2, "iter": 1, "len": 0.5, "blockvisit": 0.3, "randvisit": 0.3, "write": 0.5, "revert": 0.8,
		"copyto": 0.4, "setcoll": 0.3, "rmcoll": 0.3, "names": 0.3, "flush": 4, "reopen": 1.5, "close": 0.1, "faultyrevert": 0.5, "faultyflush": 0.4}),
		Judge:     []string{"open", "reopen"},
		AuditMode: "visit", MaxStores: 2, AllowMem: false, MinOps: 10, MaxOps: 80, LongRunP: 0.03, LongOps: 600,
		MaxColls: 3, MaxKeys: 24, CBChoices: allCB, CustomCmp: true, Nested: true, CheckWrites: true, ROHandleP: 0.2, AdvValues: true, PrioModes: []int{0, 1, 4}})
	add(&Profile{Name: "C10", CheckPins: true, Weights: mergeW(mergeW(baseWeights(), snapW), map[string]float64{"write": 0.4, "faultymut": 0.8, "faultyflush": 0.6, "flush": 3, "reopen": 1.2, "visit": 4, "iter": 1, "setcoll": 1, "rmcoll": 0.5, "close": 0.3, "burst": 2, "audit": 3, "snaprevert": 0.2, "copyto": 0.2}),
		AuditMode: "visit", MaxStores: 3, AllowMem: true, MinOps: 10, MaxOps: 80, LongRunP: 0.03, LongOps: 600,
		MaxColls: 3, MaxKeys: 24, CBChoices: []int{0, 0, CBAlloc}, CustomCmp: true, Nested: true, CheckFree: true, PrioModes: []int{0, 1, 2, 4}})
	add(&Profile{Name: "C11", Weights: mergeW(mergeW(baseWeights(), snapW), map[string]float64{"fill": 0.3, "setcolls": 0.004, "copyto": 3, "setcoll": 0.4, "rmcoll": 0.2, "evict": 3, "snapwrite": 0, "snaprevert": 0}),
		Judge:     []string{"copyto"},
		AuditMode: "visit", MaxStores: 1, AllowMem: true, MemOnlyP: 0.15, MinOps: 8, MaxOps: 60, LongRunP: 0.02, LongOps: 300,
		MaxColls: 4, MaxKeys: 48, CBChoices: allCB, CustomCmp: true, BigValues: true, CheckWrites: true, PrioModes: []int{5, 0, 1, 2, 4}})
	add(&Profile{Name: "C12", Weights: mergeW(baseWeights(), map[string]float64{"setcolls": 0.004, "setcoll": 4, "rmcoll": 2.5, "names": 2, "getcoll": 2, "flush": 2, "reopen": 1.5, "audit": 1.5, "snapshot": 0.5, "snapclose": 0.3, "visit": 1, "write": 0.8}),
		Judge:     []string{"setcoll", "rmcoll", "names", "getcoll", "audit", "open", "reopen"},
		AuditMode: "visit", MaxStores: 1, AllowMem: true, MemOnlyP: 0.2, MinOps: 10, MaxOps: 70, LongRunP: 0.02, LongOps: 400,
		MaxColls: 5, MaxKeys: 12, CBChoices: allCB, CustomCmp: true, Nested: true, PrioModes: []int{0, 1, 4}})
	add(&Profile{Name: "C13", Weights: mergeW(baseWeights(), map[string]float64{"fill": 0.3, "audit": 5, "set": 0.5, "del": 5, "evict": 3, "flush": 2, "reopen": 1, "visit": 1}),
		Judge:     []string{"audit", "flush", "visit", "reopen", "open"},
		AuditMode: "visit", MaxStores: 1, AllowMem: true, MemOnlyP: 0.25, MinOps: 6, MaxOps: 50, LongRunP: 0.05, LongOps: 600,
		MaxColls: 2, MaxKeys: 30, CBChoices: []int{0, 0, 0, CBAll}, CustomCmp: true, CheckTree: true, CheckDecode: true, CheckStruct: true,
		PrioModes: []int{5, 0, 0, 0, 1, 2, 3}, SmallSetsP: 0.6})
	add(&Profile{Name: "C14", Weights: mergeW(baseWeights(), map[string]float64{"revert": 0.4, "snapshot": 0.4, "snapclose": 0.3, "setcolls": 0.004, "faultyflush": 0.6, "flush": 5, "copyto": 0.5, "setcoll": 0.6, "rmcoll": 0.4, "reopen": 1, "write": 0.3}),
		Judge:     []string{"flush", "copyto", "open", "reopen"},
		AuditMode: "visit", MaxStores: 1, MinOps: 8, MaxOps: 70, LongRunP: 0.03, LongOps: 600,
		MaxColls: 5, MaxKeys: 30, CBChoices: allCB, CustomCmp: true, BigValues: true, CheckDecode: true, CheckStruct: true, PrioModes: []int{0, 1, 2, 3, 4}})
	add(&Profile{Name: "C15", Weights: mergeW(mergeW(baseWeights(), snapW), map[string]float64{"write": 0.4, "reopen": 1.2, "visit": 3, "iter": 1, "len": 1, "blockvisit": 0.5, "randvisit": 0.5, "setcoll": 0.3, "rmcoll": 0.4, "close": 0.2, "evict": 3, "snapwrite": 0, "snaprevert": 0.2, "copyto": 0.2}),
		Judge:     []string{},
		AuditMode: "visit", MaxStores: 2, AllowMem: true, MinOps: 6, MaxOps: 60, LongRunP: 0.02, LongOps: 400,
		MaxColls: 3, MaxKeys: 20, CBChoices: []int{CBRef, CBAlloc | CBRef, CBAll, CBAlloc | CBRef | CBAfterRead | CBBeforeWrite}, CustomCmp: true, Nested: true,
		CheckLedger: true, Final: []string{"releaseall"}, PrioModes: []int{0, 1, 4}})
	add(&Profile{Name: "C18", CheckPins: true, Weights: mergeW(baseWeights(), map[string]float64{"write": 0.4, "faultyvisit": 1.5, "reopen": 1.5, "iter": 8, "visit": 5, "snapshot": 0.5, "snapclose": 0.3, "evict": 2, "audit": 0.3}),
		Judge:     []string{"iter", "visit"},
		AuditMode: "visit", MaxStores: 1, AllowMem: true, MemOnlyP: 0.3, MinOps: 6, MaxOps: 50, LongRunP: 0.02, LongOps: 300,
		MaxColls: 2, MaxKeys: 30, CBChoices: []int{0, 0, CBAll}, CustomCmp: true, Nested: true, PrioModes: []int{0, 1, 4}})
	add(&Profile{Name: "C19", Weights: mergeW(baseWeights(), map[string]float64{"setcolls": 0.004, "setcoll": 0.5, "rmcoll": 0.5, "visit": 4, "iter": 1, "len": 1, "blockvisit": 0.5, "evict": 5, "flush": 4, "reopen": 3, "audit": 0.1, "get": 1, "snapshot": 0.3, "snapclose": 0.2}),
		Judge:     []string{},
		AuditMode: "visit", MaxStores: 1, MinOps: 10, MaxOps: 80, LongRunP: 0.03, LongOps: 500,
		MaxColls: 3, MaxKeys: 30, CBChoices: []int{0, 0, CBAlloc, CBAfterRead | CBBeforeWrite, CBKeyCompare}, CustomCmp: true, CheckReads: true, PrioModes: []int{0, 1, 4}})
	add(&Profile{Name: "C16", Weights: map[string]float64{"len": 3, "blockvisit": 4, "randvisit": 3, "setitem": 2, "del": 2, "flush": 1, "evict": 2, "reopen": 0.5},
		Judge:     []string{"len", "blockvisit", "randvisit"},
		AuditMode: "visit", MaxStores: 1, AllowMem: true, MemOnlyP: 0.4, MinOps: 6, MaxOps: 30,
		MaxColls: 1, MaxKeys: 80, CBChoices: []int{0, 0, CBAll}, CustomCmp: true, PrioModes: []int{5, 1, 4},
		Sizes: []int{1023, 1024, 1025, 2047, 2048, 2049, 3071, 3072, 3073}})
	add(&Profile{Name: "C17", Weights: mergeW(baseWeights(), map[string]float64{"visit": 3, "iter": 1, "flush": 3, "reopen": 2, "revert": 0.8, "snapshot": 0.5, "snapclose": 0.4, "snaprevert": 0.3, "blockvisit": 0.2, "randvisit": 0.2, "setcoll": 0.4, "rmcoll": 0.2, "invalid": 0.3, "len": 0.3, "copyto": 0.2, "evict": 3}),
		AuditMode: "both", MaxStores: 1, MinOps: 10, MaxOps: 70, LongRunP: 0.02, LongOps: 400,
		MaxColls: 3, MaxKeys: 24, CBChoices: []int{0}, CustomCmp: true, BigValues: true, CheckDecode: true, CheckStruct: true, PrioModes: []int{0, 1, 2, 4}})
	add(&Profile{Name: "CON", Weights: baseWeights(), AuditMode: "visit", MaxStores: 1, CheckDecode: true})
	// histories for the crash and fault enumerations
	add(&Profile{Name: "C03", Weights: mergeW(baseWeights(), map[string]float64{"setcolls": 0.004, "flush": 4, "reopen": 0.6, "setcoll": 0.6, "rmcoll": 0.4, "write": 0.4, "audit": 0.2, "get": 1, "getitem": 1, "exist": 0.3, "min": 0.2, "max": 0.2, "totals": 0.3, "revert": 0.3}),
		Judge:     []string{"open", "reopen", "flush"},
		AuditMode: "visit", MaxStores: 1, MinOps: 6, MaxOps: 40, LongRunP: 0.02, LongOps: 150,
		MaxColls: 3, MaxKeys: 14, CBChoices: []int{0, 0, 0, CBValWrite | CBValLength, CBAll}, CustomCmp: true, AdvValues: true, CheckDecode: true, PrioModes: []int{0, 1, 4}})
	add(&Profile{Name: "C07", CheckFree: true, Weights: mergeW(mergeW(baseWeights(), snapW), map[string]float64{"flush": 3, "reopen": 2.5, "visit": 3, "iter": 1, "copyto": 0.5, "revert": 0.5, "evict": 3, "len": 0.3, "blockvisit": 0.4, "randvisit": 0.4, "snapwrite": 0, "snaprevert": 0.5, "exist": 0}),
		AuditMode: "visit", MaxStores: 1, MinOps: 6, MaxOps: 30,
		MaxColls: 2, MaxKeys: 12, CBChoices: []int{0, 0, 0, CBAll, CBValRead | CBValWrite}, CustomCmp: true, CheckDecode: true, PrioModes: []int{0, 1, 4}})
	return ps
}

// ---------------------------------------------------------------------------
// Generator

type collCfg struct {
	Name     string
	Cmp      int
	Keys     [][]byte
	PrioMode int
}

type Gen struct {
	r     *Rng
	w     *World
	p     *Profile
	wts   map[string]float64
	kinds []string
	colls []collCfg // collection pool (names may or may not exist at a time)
	nOps  int
	valCtr    int
	usedPrio  map[int32]bool
	nextStore int
	nextDisk  int
	auditMode string
	cb        int
	chunk     int
	started   bool
	queue     []Op
	emitted   int
	bulkDone  bool
}

var collNamePool = []string{"", "a", "ab", "abc", "b", "users", "users.email", "x\"y", "back\\slash", "<&>", " sep", "ctl\x01\x1f", "üñí", "日本", "z"}

func NewGen(seed uint64, w *World, p *Profile) *Gen {
	g := &Gen{r: NewRng(seed), w: w, p: p, usedPrio: map[int32]bool{}}
	r := g.r
	// swarm: perturb the weights
	g.wts = map[string]float64{}
	names := make([]string, 0, len(p.Weights))
	for k := range p.Weights {
		names = append(names, k)
	}
	sort.Strings(names)
	for _, k := range names {
		f := []float64{0, 0.3, 1, 1, 1, 3}[r.Intn(6)]
		if k == "setitem" || k == "flush" && f == 0 {
			f = 1
		}
		g.wts[k] = p.Weights[k] * f
	}
	g.kinds = names
	g.nOps = r.Range(p.MinOps, p.MaxOps)
	if p.LongRunP > 0 && r.Bool(p.LongRunP) {
		g.nOps = r.Range(p.MaxOps, p.LongOps)
	}
	// collections
	nc := r.Range(1, max(1, p.MaxColls))
	perm := r.Perm(len(collNamePool))
	for i := 0; i < nc; i++ {
		cc := collCfg{Name: collNamePool[perm[i]]}
		if p.CustomCmp && r.Bool(0.3) {
			cc.Cmp = r.Intn(NumCmp)
		}
		nk := r.Range(4, max(4, p.MaxKeys))
		if p.SmallSetsP > 0 && r.Bool(p.SmallSetsP) {
			nk = r.Range(2, 7)
		}
		cc.Keys = g.genKeys(nk)
		if len(p.PrioModes) > 0 {
			cc.PrioMode = p.PrioModes[r.Intn(len(p.PrioModes))]
		}
		g.colls = append(g.colls, cc)
	}
	if len(p.CBChoices) > 0 {
		g.cb = p.CBChoices[r.Intn(len(p.CBChoices))]
	}
	g.chunk = r.Range(1, 9)
	g.auditMode = p.AuditMode
	return g
}

func max(a, b int) int {
	if a > b {
		return a
	}
	return b
}

func (g *Gen) genKeys(n int) [][]byte {
	r := g.r
	seen := map[string]bool{}
	var keys [][]byte
	style := r.Intn(3)
	for len(keys) < n {
		var k []byte
		switch style {
		case 0: // short arbitrary bytes
			k = r.Bytes(r.Range(1, 4))
		case 1: // printable with shared prefixes
			k = []byte(fmt.Sprintf("k%0*d", r.Range(1, 3), r.Intn(3*n)))
		default:
			l := r.Range(1, 10)
			k = make([]byte, l)
			for i := range k {
				k[i] = []byte{0x00, 0x01, 'a', 'b', 0x7f, 0x80, 0xfe, 0xff}[r.Intn(8)]
			}
		}
		if r.Bool(0.02) {
			k = append(k, r.Bytes(r.Range(50, 300))...)
		}
		if !seen[string(k)] {
			seen[string(k)] = true
			keys = append(keys, k)
		}
	}
	return keys
}

func (g *Gen) value(big bool) *ValSpec {
	r := g.r
	g.valCtr++
	tag := fmt.Sprintf("v%d.", g.valCtr)
	l := 0
	switch x := r.Float(); {
	case x < 0.05:
		// non-nil empty value: the tag is dropped, uniqueness does not matter for empties
		return &ValSpec{Raw: []byte{}}
	case x < 0.75:
		l = r.Range(len(tag), 24)
	case x < 0.97:
		l = r.Range(60, 400)
	case x < 0.995 || !big:
		l = r.Range(3000, 5000)
	default:
		l = r.Range(65536, 70000)
	}
	if g.p.AdvValues && r.Bool(0.2) {
		return &ValSpec{Raw: g.advValue(tag)}
	}
	return &ValSpec{Tag: tag, Len: l}
}

// advValue: value bytes that look like pieces of root records.
func (g *Gen) advValue(tag string) []byte {
	r := g.r
	b := []byte(tag)
	switch r.Intn(6) {
	case 4, 5:
		// One defect away from a complete root record: every field is
		// exact for the offset at which the record is predicted to land
		// (file size + a guess for item header, key and tag), except one.
		js := []byte(`{"a":{"o":0,"l":0}}`)
		if r.Bool(0.3) {
			js = []byte(`{}`)
		}
		defect := r.Intn(7)
		switch defect {
		case 1:
			js = append(js, 'x') // trailing garbage after the JSON value
		case 2:
			js = js[:len(js)-1] // JSON cut short
		}
		length := uint32(decRootFixed + len(js))
		var sz int64
		if len(g.w.Disks) > 0 {
			sz = g.w.Disks[0].Size()
		}
		off := uint64(sz + int64(len(tag)) + int64(r.Range(14, 40)))
		version := uint32(decVersion)
		hdrLen, trLen := length, length
		beg1, beg2 := append([]byte{}, decMagicBeg...), append([]byte{}, decMagicBeg...)
		switch defect {
		case 0:
			version += uint32(1 + r.Intn(2)) // another format version
		case 3:
			hdrLen-- // header length smaller than the trailer's
		case 4:
			hdrLen++
		case 5:
			beg2[len(beg2)-1] ^= 1 // second begin marker damaged
		case 6:
			beg1[0] ^= 1
		}
		rec := append(beg1, beg2...)
		rec = binary.BigEndian.AppendUint32(rec, version)
		rec = binary.BigEndian.AppendUint32(rec, hdrLen)
		rec = append(rec, js...)
		rec = binary.BigEndian.AppendUint64(rec, off)
		rec = binary.BigEndian.AppendUint32(rec, trLen)
		rec = append(rec, decMagicEnd...)
		rec = append(rec, decMagicEnd...)
		b = append(b, rec...)
	case 0:
		b = append(b, decMagicEnd...)
		b = append(b, decMagicEnd...)
	case 1:
		b = append(b, decMagicBeg...)
		b = append(b, decMagicBeg...)
		b = append(b, r.Bytes(r.Intn(20))...)
		b = append(b, decMagicEnd...)
		b = append(b, decMagicEnd...)
	case 2:
		// a copy of a real root record of some disk (relocated: its own
		// offset field will not match where the value lands)
		for _, d := range g.w.Disks {
			roots := AllRoots(d.Image())
			if len(roots) > 0 {
				rec := roots[r.Intn(len(roots))]
				b = append(b, d.Image()[rec.Off:rec.End]...)
				break
			}
		}
		b = append(b, decMagicEnd...)
	case 3:
		// near-miss forged record: right magics and version, offset or
		// length off by one
		js := []byte(`{"a":{"o":0,"l":0}}`)
		length := uint32(decRootFixed + len(js))
		rec := append([]byte{}, decMagicBeg...)
		rec = append(rec, decMagicBeg...)
		rec = binary.BigEndian.AppendUint32(rec, decVersion)
		rec = binary.BigEndian.AppendUint32(rec, length+uint32(r.Intn(2)))
		rec = append(rec, js...)
		var sz int64
		if len(g.w.Disks) > 0 {
			sz = g.w.Disks[0].Size()
		}
		rec = binary.BigEndian.AppendUint64(rec, uint64(sz+int64(r.Intn(64))))
		rec = binary.BigEndian.AppendUint32(rec, length+1)
		rec = append(rec, decMagicEnd...)
		rec = append(rec, decMagicEnd...)
		b = append(b, rec...)
	}
	return b
}

func (g *Gen) prio(cc *collCfg, mc *MColl, key []byte) int32 {
	r := g.r
	switch cc.PrioMode {
	case 0: // distinct, never lowered
		lo := int32(0)
		if mc != nil {
			if old, ok := mc.Get(key); ok && old.P >= 0 {
				lo = old.P + 1
			}
		}
		for tries := 0; tries < 100; tries++ {
			span := int64(1<<31-1) - int64(lo)
			if span <= 0 {
				return 1<<31 - 1
			}
			p := lo + int32(r.Uint64()%uint64(span))
			if !g.usedPrio[p] {
				g.usedPrio[p] = true
				return p
			}
		}
		return lo
	case 1:
		return int32(r.Uint64() & 0x7fffffff)
	case 2:
		return int32(r.Intn(4))
	case 3:
		return 7
	case 5:
		// priority = rank of the key in the collection's key pool under
		// bytes order: inserted in any order the treap is one long chain
		// (depth = number of items), far deeper than random priorities give
		rank := 0
		for _, k := range cc.Keys {
			if bytes.Compare(k, key) < 0 {
				rank++
			}
		}
		return int32(1000 + 10*rank)
	}
	return int32(r.Uint64() & 0x7fffffff)
}

// live handles helpers
func (g *Gen) writable() []*StoreH {
	var res []*StoreH
	for _, h := range g.w.Stores {
		if h != nil && !h.Closed && !h.Stale && h.S != nil && !h.Snap && !h.needReopen {
			res = append(res, h)
		}
	}
	return res
}

func (g *Gen) readable() []*StoreH {
	var res []*StoreH
	for _, h := range g.w.Stores {
		if h != nil && !h.Closed && !h.Stale && h.S != nil && !h.needReopen {
			res = append(res, h)
		}
	}
	return res
}

func (g *Gen) collCfgOf(name string) *collCfg {
	for i := range g.colls {
		if g.colls[i].Name == name {
			return &g.colls[i]
		}
	}
	return nil
}

// pickColl picks an existing collection of a handle.
func (g *Gen) pickColl(h *StoreH) (string, *collCfg, *MColl) {
	names := h.M.Names()
	if len(names) == 0 {
		return "", nil, nil
	}
	n := names[g.r.Intn(len(names))]
	return n, g.collCfgOf(n), h.M.Colls[n]
}

func (g *Gen) pickKey(cc *collCfg, mc *MColl, wantPresent float64) []byte {
	r := g.r
	if mc != nil && len(mc.Items) > 0 && r.Bool(wantPresent) {
		return cloneBytes(mc.Items[r.Intn(len(mc.Items))].K)
	}
	if cc != nil && len(cc.Keys) > 0 {
		return cloneBytes(cc.Keys[r.Intn(len(cc.Keys))])
	}
	return r.Bytes(r.Range(1, 4))
}

// target for range visits
func (g *Gen) target(cc *collCfg, mc *MColl) (key []byte, isNil bool) {
	r := g.r
	switch r.Intn(8) {
	case 0:
		return nil, true
	case 1:
		return []byte{}, false
	case 2: // below / at the minimum
		if len(mc.Items) > 0 {
			k := cloneBytes(mc.Items[0].K)
			if r.Bool(0.5) && len(k) > 0 {
				k[len(k)-1]--
			}
			return k, false
		}
	case 3: // above / at the maximum
		if len(mc.Items) > 0 {
			k := cloneBytes(mc.Items[len(mc.Items)-1].K)
			if r.Bool(0.7) {
				k = append(k, 0xff)
			}
			return k, false
		}
	case 4, 5: // a gap: a present key modified
		if len(mc.Items) > 0 {
			k := cloneBytes(mc.Items[r.Intn(len(mc.Items))].K)
			if r.Bool(0.5) {
				k = append(k, byte(r.Intn(256)))
			} else if len(k) > 0 {
				k[len(k)-1] += byte(1 + r.Intn(3))
			}
			return k, false
		}
	}
	return g.pickKey(cc, mc, 0.6), false
}

// Done reports whether the generator has produced its last operation.
func (g *Gen) Done() bool { return g.started && len(g.queue) == 0 && g.emitted >= g.nOps+1000000 }

// Next produces the next operation, or ok=false at the end.
func (g *Gen) Next() (Op, bool) {
	if !g.started {
		g.started = true
		g.setup()
	}
	if len(g.queue) > 0 {
		op := g.queue[0]
		g.queue = g.queue[1:]
		return op, true
	}
	if g.emitted >= g.nOps {
		if g.emitted == g.nOps {
			g.emitted++
			for _, k := range g.p.Final {
				switch k {
				case "audit":
					g.queue = append(g.queue, Op{Kind: "audit", S: -1, Var: "both"})
				case "releaseall":
					g.queue = append(g.queue, Op{Kind: "releaseall", N: g.r.Intn(1 << 20)})
				}
			}
			g.queue = append(g.queue, Op{Kind: "audit", S: -1, Var: g.auditMode})
			return g.Next()
		}
		return Op{}, false
	}
	g.emitted++
	for tries := 0; tries < 20; tries++ {
		w := make([]float64, len(g.kinds))
		for i, k := range g.kinds {
			w[i] = g.wts[k]
		}
		kind := g.kinds[g.r.Pick(w)]
		if op, ok := g.build(kind); ok {
			return op, true
		}
	}
	return Op{Kind: "audit", S: -1, Var: g.auditMode}, true
}

func (g *Gen) setup() {
	r := g.r
	p := g.p
	ns := 1
	if p.MaxStores > 1 {
		ns = r.Range(1, p.MaxStores)
	}
	for i := 0; i < ns; i++ {
		op := Op{Kind: "open", S: g.nextStore, CB: g.cb, N: g.chunk}
		if p.AllowMem && ((ns == 1 && r.Bool(p.MemOnlyP)) || (ns > 1 && i > 0 && r.Bool(0.3))) {
			op.Mem = true
		} else {
			op.D = g.nextDisk
			g.nextDisk++
		}
		g.nextStore++
		g.queue = append(g.queue, op)
		// create the collections in every store
		for ci, cc := range g.colls {
			if ci == 0 || r.Bool(0.8) {
				g.queue = append(g.queue, Op{Kind: "setcoll", S: op.S, C: cc.Name, Cmp: cc.Cmp})
			}
		}
		if len(p.Sizes) > 0 && i == 0 {
			// C16: build a collection of an exact size first
			n := r.Intn(81)
			sweep := p.index > 0 && p.index <= 3*81
			switch x := r.Float(); {
			case x < 0.12:
				n = p.Sizes[r.Intn(len(p.Sizes))]
			case x < 0.3:
				n = r.Intn(6)
			case x < 0.35:
				n = r.Range(81, 700)
			}
			if sweep {
				// the first 3 x 81 runs of a check cover every size 0..80
				n = (p.index - 1) % 81
			}
			cc := &g.colls[0]
			keys := map[string]bool{}
			for len(keys) < n {
				var k string
				if r.Bool(0.5) {
					k = fmt.Sprintf("%06d", r.Intn(10*n+10))
				} else {
					k = string(r.Bytes(r.Range(2, 5)))
				}
				if keys[k] {
					continue
				}
				keys[k] = true
				g.valCtr++
				g.queue = append(g.queue, Op{Kind: "setitem", S: op.S, C: cc.Name, Key: []byte(k),
					Val: &ValSpec{Tag: fmt.Sprintf("v%d.", g.valCtr), Len: r.Range(0, 12)}, Prio: int32(r.Uint64() & 0x7fffffff)})
			}
			if !op.Mem {
				switch r.Intn(4) {
				case 0:
					g.queue = append(g.queue, Op{Kind: "flush", S: op.S})
				case 1:
					g.queue = append(g.queue, Op{Kind: "flush", S: op.S}, Op{Kind: "evict", S: op.S, C: cc.Name, N: 64})
				case 2:
					g.queue = append(g.queue, Op{Kind: "flush", S: op.S}, Op{Kind: "reopen", S: op.S, CB: g.cb})
				}
			}
		}
	}
}

func (g *Gen) build(kind string) (Op, bool) {
	r := g.r
	switch kind {
	case "set", "setitem", "del", "invalid", "write":
		hs := g.writable()
		if len(hs) == 0 {
			return Op{}, false
		}
		h := hs[r.Intn(len(hs))]
		name, cc, mc := g.pickColl(h)
		if mc == nil {
			return Op{}, false
		}
		switch kind {
		case "set":
			op := Op{Kind: "set", S: h.ID, C: name, Key: g.pickKey(cc, mc, 0.3), Val: g.value(g.p.BigValues)}
			if r.Bool(0.12) {
				op.Var = "any" // SetAny
			}
			return op, true
		case "setitem":
			k := g.pickKey(cc, mc, 0.3)
			op := Op{Kind: "setitem", S: h.ID, C: name, Key: k, Val: g.value(g.p.BigValues)}
			if cc != nil {
				op.Prio = g.prio(cc, mc, k)
			} else {
				op.Prio = int32(r.Uint64() & 0x7fffffff)
			}
			return op, true
		case "del":
			op := Op{Kind: "del", S: h.ID, C: name, Key: g.pickKey(cc, mc, 0.7)}
			if r.Bool(0.12) {
				op.Var = "any" // DeleteAny
			}
			return op, true
		case "write":
			if h.Disk < 0 {
				return Op{}, false
			}
			return Op{Kind: "write", S: h.ID, C: name}, true
		case "invalid":
			op := Op{Kind: "setitem", S: h.ID, C: name, Key: g.pickKey(cc, mc, 0.5), Val: g.value(false), Prio: 5}
			switch r.Intn(6) {
			case 0:
				op.Key = []byte{}
			case 1:
				op.Key, op.KeyNil = nil, true
			case 2:
				op.Key = make([]byte, 65536)
				for i := range op.Key {
					op.Key[i] = byte('a' + i%7)
				}
			case 3:
				op.Val = &ValSpec{Nil: true}
			case 4:
				op.Prio = -1 - int32(r.Intn(5))
			case 5: // boundary: the largest accepted key
				op.Key = make([]byte, 65535)
				for i := range op.Key {
					op.Key[i] = byte('a' + i%5)
				}
				op.Prio = g.prio(&collCfg{PrioMode: 1}, mc, op.Key)
			}
			if r.Bool(0.3) && (op.Val == nil || !op.Val.Nil) && op.Prio >= 0 {
				op.Kind = "set"
			}
			return op, true
		}
	case "get", "getitem", "exist", "min", "max", "totals", "evict", "len", "misc":
		hs := g.readable()
		if len(hs) == 0 {
			return Op{}, false
		}
		h := hs[r.Intn(len(hs))]
		name, cc, mc := g.pickColl(h)
		if mc == nil {
			return Op{}, false
		}
		op := Op{Kind: kind, S: h.ID, C: name}
		switch kind {
		case "get", "getitem", "exist":
			op.Key = g.pickKey(cc, mc, 0.6)
			op.WV = r.Bool(0.5)
			if r.Bool(0.02) {
				op.Key, op.KeyNil = nil, true
			}
			if kind != "getitem" && r.Bool(0.12) {
				op.Var = "any" // GetAny / ExistAny
			}
		case "misc":
			op.N = r.Intn(4)
		case "min", "max":
			op.WV = r.Bool(0.5)
		case "evict":
			if h.Snap {
				return Op{}, false
			}
			op.N = []int{1, 1, 2, 4, 16, 64}[r.Intn(6)]
		}
		return op, true
	case "visit", "iter":
		hs := g.readable()
		if len(hs) == 0 {
			return Op{}, false
		}
		h := hs[r.Intn(len(hs))]
		name, cc, mc := g.pickColl(h)
		if mc == nil {
			return Op{}, false
		}
		op := Op{Kind: kind, S: h.ID, C: name, WV: r.Bool(0.5), Desc: r.Bool(0.4)}
		op.Key, op.KeyNil = g.target(cc, mc)
		if kind == "visit" {
			op.Var = []string{"plain", "ex", "ex"}[r.Intn(3)]
			if r.Bool(0.5) {
				op.Stop = r.Range(1, len(mc.Items)+1)
			}
			if g.p.Nested && r.Bool(0.3) {
				g.addNested(&op, h, 1)
			}
		} else {
			n := len(g.w.expectedRange(mc, op.key(), op.Desc, 0))
			op.Script = g.iterScript(n)
			if g.p.Nested && r.Bool(0.3) {
				g.addNested(&op, h, 1)
			}
		}
		return op, true
	case "blockvisit", "randvisit":
		hs := g.readable()
		if len(hs) == 0 {
			return Op{}, false
		}
		h := hs[r.Intn(len(hs))]
		name, _, mc := g.pickColl(h)
		if mc == nil {
			return Op{}, false
		}
		return Op{Kind: kind, S: h.ID, C: name, WV: r.Bool(0.5), N: r.Intn(5), N2: r.Intn(1 << 16)}, true
	case "flush":
		for _, h := range g.permuted(g.writable()) {
			if h.Disk >= 0 {
				return Op{Kind: "flush", S: h.ID}, true
			}
		}
	case "faultyflush":
		// a Flush hit by one write fault, retried once the file works again
		for _, h := range g.permuted(g.writable()) {
			if h.Disk >= 0 {
				f := Fault{Disk: h.Disk, Kind: FWriteErr, K: r.Range(1, 14)}
				if r.Bool(0.5) {
					f.Kind, f.N = FWriteTorn, r.Range(1, 40)
				}
				g.queue = append(g.queue, Op{Kind: "flush", S: h.ID})
				return Op{Kind: "flush", S: h.ID, Faults: []Fault{f}}, true
			}
		}
	case "faultyvisit":
		// a visit / iterator / lookup ended by one read fault
		for _, h := range g.permuted(g.readable()) {
			if h.Disk < 0 {
				continue
			}
			name, cc, mc := g.pickColl(h)
			if mc == nil {
				continue
			}
			f := Fault{Disk: h.Disk, Kind: FReadErr, K: r.Range(1, 12)}
			op := Op{Kind: "visit", S: h.ID, C: name, WV: r.Bool(0.5), Desc: r.Bool(0.5), Var: "ex", Faults: []Fault{f}}
			op.Key, op.KeyNil = g.target(cc, mc)
			switch r.Intn(4) {
			case 0:
				op.Kind, op.Var = "iter", ""
				op.Script = g.iterScript(len(mc.Items))
			case 1:
				op = Op{Kind: "getitem", S: h.ID, C: name, Key: g.pickKey(cc, mc, 0.8), WV: r.Bool(0.5), Faults: []Fault{f}}
			}
			return op, true
		}
	case "faultyrevert":
		// FlushRevert hit by one read fault, then the re-open the failed call requires
		for _, h := range g.permuted(g.writable()) {
			if h.Disk >= 0 && h.SizeKnown && !g.w.Files[h.Disk].Opaque {
				g.queue = append(g.queue, Op{Kind: "reopen", S: h.ID, CB: g.cb})
				return Op{Kind: "revert", S: h.ID, Faults: []Fault{{Disk: h.Disk, Kind: FReadErr, K: r.Range(1, 60)}}}, true
			}
		}
	case "faultymut":
		// a mutation hit by one read fault (only reaches the file when the
		// tree is not fully cached), followed by a successful one
		for _, h := range g.permuted(g.writable()) {
			if h.Disk < 0 {
				continue
			}
			name, cc, mc := g.pickColl(h)
			if mc == nil {
				continue
			}
			f := Fault{Disk: h.Disk, Kind: FReadErr, K: r.Range(1, 20)}
			k := g.pickKey(cc, mc, 0.5)
			op := Op{Kind: "setitem", S: h.ID, C: name, Key: k, Val: g.value(false), Faults: []Fault{f}}
			if cc != nil {
				op.Prio = g.prio(cc, mc, k)
			}
			if r.Bool(0.3) {
				op = Op{Kind: "del", S: h.ID, C: name, Key: g.pickKey(cc, mc, 0.9), Faults: []Fault{f}}
			}
			k2 := g.pickKey(cc, mc, 0.3)
			op2 := Op{Kind: "setitem", S: h.ID, C: name, Key: k2, Val: g.value(false)}
			if cc != nil {
				op2.Prio = g.prio(cc, mc, k2)
			}
			g.queue = append(g.queue, op2)
			return op, true
		}
	case "reopen", "reopen2":
		for _, h := range g.permuted(g.writable()) {
			if h.Disk >= 0 {
				op := Op{Kind: "reopen", S: h.ID, CB: g.cb, N: r.Intn(2)}
				if g.p.ROHandleP > 0 && r.Bool(g.p.ROHandleP) {
					op.RO = true
				}
				if kind == "reopen2" {
					g.queue = append(g.queue, Op{Kind: "reopen", S: h.ID, CB: g.cb, N: r.Intn(2)})
				}
				return op, true
			}
		}
	case "audit":
		return Op{Kind: "audit", S: -1, Var: g.auditMode}, true
	case "names":
		hs := g.readable()
		if len(hs) > 0 {
			return Op{Kind: "names", S: hs[r.Intn(len(hs))].ID}, true
		}
	case "getcoll":
		hs := g.readable()
		if len(hs) > 0 {
			return Op{Kind: "getcoll", S: hs[r.Intn(len(hs))].ID, C: g.colls[r.Intn(len(g.colls))].Name}, true
		}
	case "setcoll":
		hs := g.writable()
		if len(hs) > 0 {
			h := hs[r.Intn(len(hs))]
			cc := g.colls[r.Intn(len(g.colls))]
			op := Op{Kind: "setcoll", S: h.ID, C: cc.Name, Cmp: cc.Cmp}
			if mc, ok := h.M.Colls[cc.Name]; ok && len(mc.Items) <= 1 && g.p.CustomCmp && r.Bool(0.4) {
				// a really different comparator is installable while at most
				// one item exists
				op.Cmp = r.Intn(NumCmp)
			}
			if op.Cmp == CmpBytes && r.Bool(0.5) {
				op.N2 = 1 // pass a nil comparator
			}
			return op, true
		}
	case "setcolls":
		// once per history: enough long-named collections for a root record
		// of 62-70 KiB (or twice that)
		if !g.bulkDone {
			for _, h := range g.permuted(g.writable()) {
				if h.Disk >= 0 {
					g.bulkDone = true
					l := r.Range(150, 260)
					n := r.Range(62000, 70000) / (l + 41)
					if r.Bool(0.2) {
						n *= 2
					}
					g.queue = append(g.queue, Op{Kind: "flush", S: h.ID})
					// every later audit / flush / re-open walks all of them:
					// keep the rest of such a history short
					if g.nOps > g.emitted+8 {
						g.nOps = g.emitted + 8
					}
					return Op{Kind: "setcolls", S: h.ID, N: n, N2: l}, true
				}
			}
		}
	case "rmcoll":
		hs := g.writable()
		if len(hs) > 0 {
			h := hs[r.Intn(len(hs))]
			cc := g.colls[r.Intn(len(g.colls))]
			op := Op{Kind: "rmcoll", S: h.ID, C: cc.Name}
			if r.Bool(0.5) {
				// remove then re-create: a fast way to empty a collection
				g.queue = append(g.queue, Op{Kind: "setcoll", S: h.ID, C: cc.Name, Cmp: cc.Cmp})
			}
			return op, true
		}
	case "snapshot":
		hs := g.readable()
		open := 0
		for _, h := range hs {
			if h.Snap {
				open++
			}
		}
		if len(hs) > 0 && open < 5 {
			h := hs[r.Intn(len(hs))]
			op := Op{Kind: "snapshot", S: h.ID, N: g.nextStore}
			g.nextStore++
			return op, true
		}
	case "snapclose":
		for _, h := range g.permuted(g.readable()) {
			if h.Snap {
				return Op{Kind: "close", S: h.ID}, true
			}
		}
	case "snapwrite": // mutations on a snapshot must be refused
		for _, h := range g.permuted(g.readable()) {
			if h.Snap {
				name, cc, mc := g.pickColl(h)
				if mc == nil {
					continue
				}
				switch r.Intn(4) {
				case 0:
					return Op{Kind: "setitem", S: h.ID, C: name, Key: g.pickKey(cc, mc, 0.5), Val: g.value(false), Prio: 3}, true
				case 1:
					return Op{Kind: "del", S: h.ID, C: name, Key: g.pickKey(cc, mc, 0.9)}, true
				case 2:
					return Op{Kind: "flush", S: h.ID}, true
				case 3:
					return Op{Kind: "write", S: h.ID, C: name}, true
				}
			}
		}
	case "snaprevert":
		for _, h := range g.permuted(g.readable()) {
			if h.Snap && h.Disk >= 0 && h.SizeKnown && !g.w.Files[h.Disk].Opaque {
				return Op{Kind: "revert", S: h.ID}, true
			}
		}
	case "revert":
		for _, h := range g.permuted(g.writable()) {
			if (h.Disk >= 0 && h.SizeKnown && !g.w.Files[h.Disk].Opaque) || h.Disk < 0 {
				return Op{Kind: "revert", S: h.ID}, true
			}
		}
	case "close":
		hs := g.writable()
		if len(hs) > 0 {
			h := hs[r.Intn(len(hs))]
			op := Op{Kind: "close", S: h.ID}
			// continue on a fresh handle of the same file, or a new store
			if h.Disk >= 0 {
				g.queue = append(g.queue, Op{Kind: "open", S: g.nextStore, D: h.Disk, CB: g.cb, N: g.chunk})
				g.nextStore++
			}
			return op, true
		}
	case "copyto":
		hs := g.readable()
		if len(hs) > 0 {
			h := hs[r.Intn(len(hs))]
			n := 0
			for _, c := range h.M.Colls {
				if len(c.Items) > n {
					n = len(c.Items)
				}
			}
			fe := []int{-1, 0, 1, 2, 3, n - 1, n, n + 1, 10*n + 1, r.Range(1, n+2)}[r.Intn(10)]
			op := Op{Kind: "copyto", S: h.ID, N: g.nextStore, D: g.nextDisk, N2: fe}
			g.nextStore++
			g.nextDisk++
			return op, true
		}
	case "fill": // every key of the collection's pool, in random order
		hs := g.writable()
		if len(hs) > 0 {
			h := hs[r.Intn(len(hs))]
			name, cc, mc := g.pickColl(h)
			if mc == nil || cc == nil || len(cc.Keys) == 0 {
				return Op{}, false
			}
			var first Op
			for i, ki := range r.Perm(len(cc.Keys)) {
				k := cc.Keys[ki]
				op := Op{Kind: "setitem", S: h.ID, C: name, Key: k, Val: g.value(false)}
				op.Prio = g.prio(cc, h.M.Colls[name], k)
				if i == 0 {
					first = op
				} else {
					g.queue = append(g.queue, op)
				}
			}
			return first, true
		}
	case "burst": // unrelated allocation to force reuse of freed nodes
		hs := g.writable()
		if len(hs) > 0 {
			h := hs[r.Intn(len(hs))]
			name, cc, mc := g.pickColl(h)
			if mc == nil {
				return Op{}, false
			}
			n := r.Range(3, 12)
			var first Op
			for i := 0; i < n; i++ {
				k := g.pickKey(cc, mc, 0.2)
				op := Op{Kind: "setitem", S: h.ID, C: name, Key: k, Val: g.value(false)}
				if cc != nil {
					op.Prio = g.prio(cc, h.M.Colls[name], k)
				}
				if i == 0 {
					first = op
				} else {
					g.queue = append(g.queue, op)
				}
			}
			return first, true
		}
	}
	return Op{}, false
}

func (g *Gen) permuted(hs []*StoreH) []*StoreH {
	res := make([]*StoreH, len(hs))
	for i, j := range g.r.Perm(len(hs)) {
		res[i] = hs[j]
	}
	return res
}

func (g *Gen) iterScript(n int) string {
	r := g.r
	var s []byte
	switch r.Intn(6) {
	case 0: // never Next before Close
		s = []byte("c")
	case 1: // exhaust, then more
		for i := 0; i < n+1; i++ {
			s = append(s, 'n')
		}
		s = append(s, "nnc"[:r.Intn(4)]...)
	case 2: // stop after j items
		j := r.Intn(n + 1)
		for i := 0; i < j; i++ {
			s = append(s, 'n')
		}
		s = append(s, 'c')
		s = append(s, "cnn"[:r.Intn(4)]...)
	default:
		l := r.Intn(n + 4)
		for i := 0; i < l; i++ {
			if r.Bool(0.85) {
				s = append(s, 'n')
			} else {
				s = append(s, 'c')
			}
		}
	}
	return string(s)
}

// addNested attaches operations executed inside the visitor callback.
func (g *Gen) addNested(op *Op, h *StoreH, depth int) {
	r := g.r
	n := r.Range(1, 3)
	for i := 0; i < n; i++ {
		at := r.Range(1, 4)
		kinds := []string{"get", "getitem", "min", "totals", "visit", "setitem", "del", "evict", "flush", "snapshot", "setcoll", "rmcoll"}
		k := kinds[r.Intn(len(kinds))]
		if _, ok := g.wts[k]; !ok && k != "visit" && k != "get" && k != "setitem" && k != "del" && k != "setcoll" {
			k = "get"
		}
		if (k == "setcoll" || k == "rmcoll") && (h.Snap || !r.Bool(0.5)) {
			k = "getitem"
		}
		if h.Snap && (k == "setitem" || k == "del" || k == "evict" || k == "flush") {
			// mutate the original instead: legal from the mutating goroutine
			if p := g.w.usable(h.Parent); p != nil && !p.Snap {
				h = p
			} else {
				k = "get"
			}
		}
		if (k == "setitem" || k == "del" || k == "evict" || k == "flush") && h.Snap {
			k = "get"
		}
		if k == "flush" && h.Disk < 0 {
			k = "totals"
		}
		saveQ := g.queue
		nop, ok := g.buildFor(k, h)
		g.queue = saveQ
		if !ok {
			continue
		}
		if nop.Kind == "visit" {
			nop.Nested = nil
			if depth < 3 && r.Bool(0.4) {
				g.addNested(&nop, h, depth+1)
			}
		}
		op.Nested = append(op.Nested, NestedOp{At: at, Op: nop})
	}
}

// buildFor builds an op of the given kind against a specific handle.
func (g *Gen) buildFor(kind string, h *StoreH) (Op, bool) {
	r := g.r
	name, cc, mc := g.pickColl(h)
	if mc == nil {
		return Op{}, false
	}
	switch kind {
	case "get", "getitem":
		return Op{Kind: kind, S: h.ID, C: name, Key: g.pickKey(cc, mc, 0.6), WV: r.Bool(0.5)}, true
	case "min", "totals":
		return Op{Kind: kind, S: h.ID, C: name, WV: r.Bool(0.5)}, true
	case "visit":
		op := Op{Kind: "visit", S: h.ID, C: name, WV: r.Bool(0.5), Desc: r.Bool(0.4), Var: "ex"}
		op.Key, op.KeyNil = g.target(cc, mc)
		if r.Bool(0.5) {
			op.Stop = r.Range(1, len(mc.Items)+1)
		}
		return op, true
	case "setitem":
		k := g.pickKey(cc, mc, 0.3)
		op := Op{Kind: "setitem", S: h.ID, C: name, Key: k, Val: g.value(false)}
		if cc != nil {
			op.Prio = g.prio(cc, mc, k)
		}
		return op, true
	case "del":
		return Op{Kind: "del", S: h.ID, C: name, Key: g.pickKey(cc, mc, 0.8)}, true
	case "evict":
		return Op{Kind: "evict", S: h.ID, C: name, N: r.Range(1, 8)}, true
	case "flush":
		return Op{Kind: "flush", S: h.ID}, true
	case "snapshot":
		op := Op{Kind: "snapshot", S: h.ID, N: g.nextStore}
		g.nextStore++
		return op, true
	case "setcoll":
		// re-register the collection being used (closes the handle the
		// enclosing operation works on), same ordering
		op := Op{Kind: "setcoll", S: h.ID, C: name, Cmp: mc.Cmp}
		if op.Cmp == CmpBytes && r.Bool(0.5) {
			op.N2 = 1
		}
		return op, true
	case "rmcoll":
		return Op{Kind: "rmcoll", S: h.ID, C: name}, true
	}
	return Op{}, false
}
