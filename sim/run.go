package sim

import (
	"encoding/json"
	"fmt"
	"math/rand"
	"os"
	"strings"
	"sync/atomic"

	"github.com/cbehopkins/gkvlite"
)

// Plan is a run: either generated from (Prop, Seed) or an explicit trace.
type Plan struct {
	Prop    string     `json:"prop"`
	Profile string     `json:"profile"`
	Seed    uint64     `json:"seed"`
	Ops     []Op       `json:"ops,omitempty"`
	Sched   []string   `json:"sched,omitempty"`
	Viol    *Violation `json:"violation,omitempty"`
	Note    string     `json:"note,omitempty"`
	Engine  string     `json:"engine,omitempty"`
	Extra   *Extra     `json:"extra,omitempty"`
	Con     *ConPlan   `json:"con,omitempty"`
	// FixedSched: replay Sched (tolerantly) instead of drawing a schedule
	FixedSched bool `json:"fixed_sched,omitempty"`
	// Index: 1-based position of the run in the check's sequence (0: unknown);
	// the first indexes are used for systematic sweeps (C13, C16)
	Index int `json:"index,omitempty"`
}

// Extra carries property-specific replay parameters.
type Extra struct {
	Crash   *CrashSpec `json:"crash,omitempty"`
	CrashD  int        `json:"crash_disk,omitempty"`
	CBMaskA int        `json:"cb_a,omitempty"`
	CBMaskB int        `json:"cb_b,omitempty"`
}

// CurWorld is the world of the run in progress (read by the watchdog).
var CurWorld atomic.Pointer[World]

// Progress is bumped by every executed operation (watchdog input).
var Progress atomic.Int64

type RunResult struct {
	Plan     *Plan
	Viol     *Violation
	Stats    *RunStats
	Fired    map[string]int
	IOCounts map[byte]int
	Sig      uint64
	NonTriv  bool
	World    *World
	Evals    int
	Hash     uint64
	Post     func() *Violation // checks that must run outside the synctest bubble
	Sample   []string
}

func applyProfile(w *World, p *Profile) {
	if p.Judge != nil {
		w.Judge = map[string]bool{}
		for _, k := range p.Judge {
			w.Judge[k] = true
		}
	}
	w.CheckReads = p.CheckReads
	w.CheckWrites = p.CheckWrites
	w.CheckDecode = p.CheckDecode
	w.CheckStruct = p.CheckStruct
	w.CheckTree = p.CheckTree
	w.CheckFree = p.CheckFree
	w.CheckLedger = p.CheckLedger
	w.CheckPins = p.CheckPins
	w.RecordIO = p.recordIO
	w.AdvValues = p.AdvValues
	w.Env.KeepReads = p.CheckReads
	w.installMonitors()
}

// resetGlobals puts every process-global input of a run in a canonical state.
func resetGlobals(seed uint64) {
	gkvlite.VerifResetAlloc()
	gkvlite.VerifYield = nil
	gkvlite.VerifLockHook = nil
	rand.Seed(int64(seed & 0x7fffffffffffffff))
}

// RunSeq executes a plan with the sequential engine.  When plan.Ops is
// empty the trace is generated from the seed while it executes.
func RunSeq(plan *Plan, p *Profile) *RunResult {
	resetGlobals(plan.Seed)
	w := NewWorld(plan.Prop)
	applyProfile(w, p)
	res := &RunResult{Plan: plan, World: w}
	CurWorld.Store(w)
	var trace []Op
	if len(plan.Ops) > 0 {
		for i, op := range plan.Ops {
			trace = append(trace, op)
			w.Trace = trace
			w.Exec(i, op)
			if w.Viol != nil || w.Aborted {
				break
			}
		}
	} else {
		p.index = plan.Index
		g := NewGen(plan.Seed, w, p)
		for i := 0; ; i++ {
			op, ok := g.Next()
			if !ok {
				break
			}
			trace = append(trace, op)
			w.Trace = trace
			w.Exec(i, op)
			if w.Viol != nil || w.Aborted {
				break
			}
		}
	}
	w.Trace = trace
	res.Viol = w.Viol
	if w.Ledger != nil && w.Ledger.Poisoned > 0 {
		w.Stats.Probes["items-recycled-at-refcount-zero"] += w.Ledger.Poisoned
	}
	res.Stats = w.Stats
	res.Fired = w.Env.Fired
	res.IOCounts = w.Env.Counts
	res.Sig = traceSig(trace)
	return res
}

func traceSig(trace []Op) uint64 {
	h := uint64(0xcbf29ce484222325)
	mix := func(s string) {
		for i := 0; i < len(s); i++ {
			h ^= uint64(s[i])
			h *= 1099511628211
		}
		h ^= 0xff
		h *= 1099511628211
	}
	var rec func(op Op)
	rec = func(op Op) {
		mix(op.Kind)
		if op.WV {
			mix("wv")
		}
		if op.Desc {
			mix("d")
		}
		mix(op.Var)
		for _, f := range op.Faults {
			mix(fmt.Sprintf("%s/%d/%d", f.Kind, f.K, f.N))
		}
		if op.Crash != nil {
			mix(fmt.Sprintf("c%d/%d/%d", op.Crash.Writes, op.Crash.Torn, op.Crash.Junk))
		}
		for _, n := range op.Nested {
			mix("{")
			rec(n.Op)
			mix("}")
		}
	}
	for _, op := range trace {
		rec(op)
	}
	return h
}

// TraceStrings renders a trace for samples.
func TraceStrings(trace []Op, maxOps int) []string {
	var res []string
	for i, op := range trace {
		if i >= maxOps {
			res = append(res, fmt.Sprintf("... (%d more operations)", len(trace)-i))
			break
		}
		res = append(res, op.String())
	}
	return res
}

func countKinds(trace []Op) map[string]int {
	m := map[string]int{}
	var rec func(op Op)
	rec = func(op Op) {
		m[op.Kind]++
		for _, n := range op.Nested {
			rec(n.Op)
		}
	}
	for _, op := range trace {
		rec(op)
	}
	return m
}

// WritePlan stores a replay file.
func WritePlan(path string, plan *Plan) error {
	b, err := json.MarshalIndent(plan, "", " ")
	if err != nil {
		return err
	}
	return os.WriteFile(path, b, 0644)
}

func ReadPlan(path string) (*Plan, error) {
	b, err := os.ReadFile(path)
	if err != nil {
		return nil, err
	}
	p := &Plan{}
	if err := json.Unmarshal(b, p); err != nil {
		return nil, err
	}
	return p, nil
}

func shortMsg(s string) string {
	s = strings.ReplaceAll(s, "\n", " ")
	if len(s) > 300 {
		s = s[:300] + "..."
	}
	return s
}
