package sim

import (
	"bytes"
	"fmt"
	"io"
	"runtime/debug"
	"sort"
	"strings"

	"github.com/cbehopkins/gkvlite"
)

// ---------------------------------------------------------------------------
// Operations (the concrete trace language)

type ValSpec struct {
	Nil bool   `json:"nil,omitempty"`
	Tag string `json:"tag,omitempty"`
	Len int    `json:"len,omitempty"`
	Raw []byte `json:"raw,omitempty"` // explicit bytes (adversarial values)
}

// Bytes expands the value deterministically.
func (v *ValSpec) Bytes() []byte {
	if v == nil || v.Nil {
		return nil
	}
	if v.Raw != nil {
		return append([]byte{}, v.Raw...)
	}
	b := make([]byte, 0, v.Len)
	b = append(b, v.Tag...)
	for i := len(b); i < v.Len; i++ {
		b = append(b, byte('a'+(i*7+len(v.Tag))%26))
	}
	if len(b) > v.Len {
		// the tag always survives: uniqueness matters more than length
		return b
	}
	return b
}

type NestedOp struct {
	At int `json:"at"` // run when the visitor receives its At-th item (1-based)
	Op Op  `json:"op"`
}

type Op struct {
	Kind   string     `json:"k"`
	S      int        `json:"s"`
	C      string     `json:"c,omitempty"`
	Key    []byte     `json:"key,omitempty"`
	KeyNil bool       `json:"keynil,omitempty"`
	Val    *ValSpec   `json:"val,omitempty"`
	Prio   int32      `json:"p,omitempty"`
	WV     bool       `json:"wv,omitempty"`
	Desc   bool       `json:"desc,omitempty"`
	Var    string     `json:"var,omitempty"`
	Stop   int        `json:"stop,omitempty"`
	N      int        `json:"n,omitempty"`
	N2     int        `json:"n2,omitempty"`
	Cmp    int        `json:"cmp,omitempty"`
	D      int        `json:"d,omitempty"`
	CB     int        `json:"cb,omitempty"`
	Mem    bool       `json:"mem,omitempty"`
	RO     bool       `json:"ro,omitempty"`
	Script string     `json:"script,omitempty"`
	Nested []NestedOp `json:"nested,omitempty"`
	Faults []Fault    `json:"faults,omitempty"`
	Crash  *CrashSpec `json:"crash,omitempty"`
}

func (o Op) key() []byte {
	if o.KeyNil {
		return nil
	}
	if o.Key == nil {
		return []byte{}
	}
	return append([]byte{}, o.Key...)
}

func showBytes(b []byte) string {
	if len(b) > 24 {
		return fmt.Sprintf("%q..(%d bytes)", b[:16], len(b))
	}
	return fmt.Sprintf("%q", b)
}

// String renders an operation for samples and reports.
func (o Op) String() string {
	var sb strings.Builder
	fmt.Fprintf(&sb, "%s(s%d", o.Kind, o.S)
	if o.C != "" || isCollOp(o.Kind) {
		fmt.Fprintf(&sb, " c=%q", o.C)
	}
	if o.Key != nil || o.KeyNil {
		if o.KeyNil {
			sb.WriteString(" key=nil")
		} else {
			fmt.Fprintf(&sb, " key=%s", showBytes(o.Key))
		}
	}
	if o.Val != nil {
		if o.Val.Nil {
			sb.WriteString(" val=nil")
		} else if o.Val.Raw != nil {
			fmt.Fprintf(&sb, " val=raw%s", showBytes(o.Val.Raw))
		} else {
			fmt.Fprintf(&sb, " val=%s/%d", o.Val.Tag, o.Val.Len)
		}
	}
	if o.Kind == "setitem" {
		fmt.Fprintf(&sb, " prio=%d", o.Prio)
	}
	if o.WV {
		sb.WriteString(" withValue")
	}
	if o.Desc {
		sb.WriteString(" desc")
	}
	if o.Var != "" {
		fmt.Fprintf(&sb, " var=%s", o.Var)
	}
	if o.Stop != 0 {
		fmt.Fprintf(&sb, " stop=%d", o.Stop)
	}
	if o.N != 0 {
		fmt.Fprintf(&sb, " n=%d", o.N)
	}
	if o.N2 != 0 {
		fmt.Fprintf(&sb, " n2=%d", o.N2)
	}
	if o.Cmp != 0 {
		fmt.Fprintf(&sb, " cmp=%d", o.Cmp)
	}
	if o.Kind == "open" || o.Kind == "copyto" || o.Kind == "crash" {
		fmt.Fprintf(&sb, " disk=%d cb=%d mem=%v", o.D, o.CB, o.Mem)
	}
	if o.Script != "" {
		fmt.Fprintf(&sb, " script=%s", o.Script)
	}
	for _, f := range o.Faults {
		fmt.Fprintf(&sb, " FAULT[%s k=%d n=%d disk=%d]", f.Kind, f.K, f.N, f.Disk)
	}
	if o.Crash != nil {
		fmt.Fprintf(&sb, " CRASH[writes=%d torn=%d junk=%d]", o.Crash.Writes, o.Crash.Torn, o.Crash.Junk)
	}
	for _, n := range o.Nested {
		fmt.Fprintf(&sb, " {@%d %s}", n.At, n.Op.String())
	}
	sb.WriteString(")")
	return sb.String()
}

func isCollOp(k string) bool {
	switch k {
	case "set", "setitem", "del", "get", "getitem", "exist", "min", "max", "totals",
		"evict", "visit", "len", "blockvisit", "randvisit", "iter", "write", "setcoll", "rmcoll", "getcoll":
		return true
	}
	return false
}

// ---------------------------------------------------------------------------
// Violations

type Violation struct {
	Prop   string `json:"prop"`
	Oracle string `json:"oracle"`
	Op     int    `json:"op"`
	OpKind string `json:"op_kind"`
	Msg    string `json:"msg"`
	Stack  string `json:"stack,omitempty"`
}

func (v *Violation) Class() string { return v.Prop + "/" + v.Oracle + "/" + v.OpKind }

// ---------------------------------------------------------------------------
// Callback configuration (C17)

const (
	CBAlloc = 1 << iota
	CBRef
	CBValLength
	CBValWrite
	CBValRead
	CBBeforeWrite
	CBAfterRead
	CBKeyCompare
	CBAll = 1<<iota - 1
)

// ---------------------------------------------------------------------------
// World

type StoreH struct {
	ID     int
	S      *gkvlite.Store
	Disk   int // -1: memory only
	Snap   bool
	Parent int
	Origin int // snapshots: id of the writable store at the root of the snapshot chain
	Closed bool
	Stale  bool // must not be used any more (documented), not audited
	M      MState
	CB     int
	Chunk  int
	// modelled Store.size knowledge for snapshot FlushRevert
	SizeKnown bool
	Size      int64
	// universe of keys ever used per collection (audit by lookup)
	Universe map[string]map[string]bool
	needReopen  bool // FlushRevert failed: only reopen is allowed
}

type RunStats struct {
	Ops        map[string]int `json:"ops"`
	Skipped    int            `json:"skipped"`
	Probes     map[string]int `json:"probes"`
	Audits     int            `json:"audits"`
	Compares   int            `json:"compares"`
	Steps      int            `json:"steps"`
	CrashImgs  int            `json:"crash_images"`
	FaultRuns  int            `json:"fault_runs"`
	Flushes    int            `json:"flushes"`
	Decodes    int            `json:"decodes"`
	ReadsSeen  int            `json:"reads_checked"`
	WritesSeen int            `json:"writes_checked"`
}

func NewRunStats() *RunStats {
	return &RunStats{Ops: map[string]int{}, Probes: map[string]int{}}
}

type World struct {
	Prop   string
	Env    *DiskEnv
	Disks  []*SimDisk
	Files  []*MFile
	Stores []*StoreH
	Viol   *Violation
	Stats  *RunStats
	OpIdx  int
	opIOSnap map[int]map[byte]int
	curFaults []Fault
	RecordIO bool
	OpIO     []map[int]map[byte]int // per top-level op: disk -> call class -> count
	sub    int
	depth  int
	Judge  map[string]bool // nil: judge everything
	Ledger *Ledger
	Yield  func(site string)
	OpOf   func() (string, bool) // consim: operation of the calling goroutine
	// options
	CheckReads  bool // C19 read-range oracle
	CheckWrites bool // C09 append-only monitor
	CheckDecode bool // decoder at every flush
	CheckStruct bool // C14 structural clauses
	CheckTree   bool // C13 tree oracle on audits
	CheckFree   bool // C10 hooked oracle
	CheckLedger bool // C15
	CheckPins   bool // C18/C10: version pins released once nothing is in flight
	AdvValues   bool // the generator plants root-record look-alikes in values
	Trace       []Op
	Aborted     bool // run ended early without a verdict
	PanicsAlways bool
	// per-op scratch
	faultExpected bool
	durable     []int64 // per disk: end of the last durable root record
	copySrcDisk int
	curWV       bool
	oldVersionCtx int // >0 while reading through a snapshot or inside a visit with nested operations
	valRanges   map[int][]interval
}

func NewWorld(prop string) *World {
	env := &DiskEnv{Fired: map[string]int{}, Counts: map[byte]int{}}
	w := &World{Prop: prop, Env: env, Stats: NewRunStats(), copySrcDisk: -1}
	w.Ledger = NewLedger()
	return w
}

func (w *World) disk(i int) *SimDisk {
	for len(w.Disks) <= i {
		d := NewSimDisk(len(w.Disks), w.Env)
		// a disk created inside an operation (CopyTo destination) takes
		// part in that operation's fault plan
		d.BeginOp(w.curFaults)
		w.Disks = append(w.Disks, d)
		w.Files = append(w.Files, &MFile{})
		w.durable = append(w.durable, 0)
	}
	return w.Disks[i]
}

func (w *World) store(i int) *StoreH {
	if i < 0 || i >= len(w.Stores) {
		return nil
	}
	return w.Stores[i]
}

func (w *World) usable(i int) *StoreH {
	h := w.store(i)
	if h == nil || h.Closed || h.Stale || h.S == nil {
		return nil
	}
	return h
}

func (w *World) setStore(h *StoreH) {
	for len(w.Stores) <= h.ID {
		w.Stores = append(w.Stores, nil)
	}
	w.Stores[h.ID] = h
}

func (w *World) judges(kind string) bool {
	if w.Judge == nil {
		return true
	}
	return w.Judge[kind]
}

func (w *World) fail(oracle string, kind string, format string, a ...interface{}) {
	if w.Viol != nil {
		return
	}
	w.Viol = &Violation{Prop: w.Prop, Oracle: oracle, Op: w.OpIdx, OpKind: kind, Msg: fmt.Sprintf(format, a...)}
}

func (w *World) probe(name string) { w.Stats.Probes[name]++ }

func (w *World) yield(site string) {
	if w.Yield != nil {
		w.Yield(site)
	}
}

// protect runs f and converts a panic into a violation.
func (w *World) protect(kind string, f func()) (panicked bool) {
	defer func() {
		if r := recover(); r != nil {
			if _, ok := r.(abortRun); ok {
				panic(r)
			}
			panicked = true
			if !w.judges(strings.TrimSuffix(kind, "@snap")) && !w.PanicsAlways {
				// a panic in an operation this property does not judge
				// belongs to another property's check; the state is
				// unknown from here on, so the run ends quietly
				w.Aborted = true
				w.probe("run-aborted-by-panic-in-unjudged-op")
				return
			}
			if w.Viol == nil {
				w.Viol = &Violation{Prop: w.Prop, Oracle: "panic", Op: w.OpIdx, OpKind: kind,
					Msg: fmt.Sprintf("panic: %v", r), Stack: trimStack(string(debug.Stack()))}
			}
		}
	}()
	f()
	return false
}

type abortRun struct{}

func trimStack(s string) string {
	lines := strings.Split(s, "\n")
	var out []string
	for _, l := range lines {
		if strings.Contains(l, "gkvlite") || strings.Contains(l, "verifsim") {
			out = append(out, strings.TrimSpace(l))
		}
		if len(out) > 24 {
			break
		}
	}
	return strings.Join(out, "\n")
}

// ---------------------------------------------------------------------------
// Comparators and callbacks handed to gkvlite

func (w *World) cmpFunc(id int) gkvlite.KeyCompare {
	return func(a, b []byte) int {
		w.Stats.Compares++
		w.yield("cmp")
		return CompareRaw(id, a, b)
	}
}

func (w *World) callbacks(h *StoreH, cmpOf func(name string) int) gkvlite.StoreCallbacks {
	var cb gkvlite.StoreCallbacks
	mask := h.CB
	chunk := h.Chunk
	if chunk <= 0 {
		chunk = 3
	}
	if mask&CBAlloc != 0 {
		cb.ItemAlloc = func(c *gkvlite.Collection, keyLength uint32) *gkvlite.Item {
			w.yield("cb-alloc")
			it := &gkvlite.Item{Key: make([]byte, keyLength), Transient: "alloc"}
			if mask&CBRef != 0 {
				w.Ledger.Alloc(it)
				if w.oldVersionCtx > 0 {
					w.Ledger.Tagged[it] = true
				}
			}
			return it
		}
	}
	if mask&CBRef != 0 {
		if cb.ItemAlloc == nil {
			// reference counting needs to see allocations: count 1 per
			// allocated item as the callback contract says
			cb.ItemAlloc = func(c *gkvlite.Collection, keyLength uint32) *gkvlite.Item {
				it := &gkvlite.Item{Key: make([]byte, keyLength)}
				w.Ledger.Alloc(it)
				if w.oldVersionCtx > 0 {
					w.Ledger.Tagged[it] = true
				}
				return it
			}
		}
		cb.ItemAddRef = func(c *gkvlite.Collection, i *gkvlite.Item) { w.Ledger.AddRef(i) }
		cb.ItemDecRef = func(c *gkvlite.Collection, i *gkvlite.Item) { w.Ledger.DecRef(i) }
	}
	if mask&CBValLength != 0 {
		cb.ItemValLength = func(c *gkvlite.Collection, i *gkvlite.Item) int { return len(i.Val) }
	}
	if mask&CBValWrite != 0 {
		cb.ItemValWrite = func(c *gkvlite.Collection, i *gkvlite.Item, wr io.WriterAt, offset int64) error {
			w.yield("cb-valwrite")
			v := i.Val
			if len(v) == 0 {
				if h.Chunk%2 == 1 {
					// the plain loop form ("while bytes remain, write the
					// next chunk"): an empty value issues no write at all
					// (seeded change C17-r9-1)
					w.probe("valwrite-callback-wrote-nothing-for-empty-value")
					return nil
				}
				// what the built-in writer does: one zero-length WriteAt
				_, err := wr.WriteAt(v, offset)
				return err
			}
			chunk := chunk
			if len(v)/chunk > 48 {
				chunk = len(v)/48 + 1 // big values: at most ~48 calls
			}
			for p := 0; p < len(v); p += chunk {
				e := p + chunk
				if e > len(v) {
					e = len(v)
				}
				if _, err := wr.WriteAt(v[p:e], offset+int64(p)); err != nil {
					return err
				}
			}
			return nil
		}
	}
	if mask&CBValRead != 0 {
		cb.ItemValRead = func(c *gkvlite.Collection, i *gkvlite.Item, r io.ReaderAt, offset int64, valLength uint32) error {
			w.yield("cb-valread")
			v := make([]byte, valLength)
			if h.Chunk%3 == 0 {
				// what the built-in reader does: one ReadAt for the whole
				// value, also when it is empty
				if _, err := r.ReadAt(v, offset); err != nil {
					return err
				}
				i.Val = v
				return nil
			}
			chunk := chunk
			if len(v)/chunk > 48 {
				chunk = len(v)/48 + 1
			}
			for p := 0; p < len(v); p += chunk {
				e := p + chunk
				if e > len(v) {
					e = len(v)
				}
				if _, err := r.ReadAt(v[p:e], offset+int64(p)); err != nil {
					return err
				}
			}
			i.Val = v
			return nil
		}
	}
	if mask&CBBeforeWrite != 0 {
		cb.BeforeItemWrite = func(c *gkvlite.Collection, i *gkvlite.Item) (*gkvlite.Item, error) {
			w.yield("cb-beforewrite")
			return i, nil
		}
	}
	if mask&CBAfterRead != 0 {
		cb.AfterItemRead = func(c *gkvlite.Collection, i *gkvlite.Item) (*gkvlite.Item, error) {
			w.yield("cb-afterread")
			return i, nil
		}
	}
	if mask&CBKeyCompare != 0 {
		cb.KeyCompareForCollection = func(name string) gkvlite.KeyCompare {
			id := cmpOf(name)
			if id == 0 && chunk%2 == 0 {
				// documented: nil means "use the default bytes.Compare"
				w.probe("keycompare-callback-returned-nil")
				return nil
			}
			return w.cmpFunc(id)
		}
	}
	return cb
}

// ---------------------------------------------------------------------------
// Reference-count ledger (C15)

type Ledger struct {
	Count    map[*gkvlite.Item]int
	Harness  map[*gkvlite.Item]int // references owned by the harness (caller)
	LastAddRef *gkvlite.Item
	Dead        map[*gkvlite.Item]bool // count went back to 0 through ItemDecRef
	Resurrected []string
	Tagged     map[*gkvlite.Item]bool // allocated while reading through a possibly superseded version
	Negative []string
	Pooled   map[*gkvlite.Item]bool // allocated by ItemAlloc: buffers belong to the allocator again at count 0
	NoPoison bool
	Poisoned int
	AddRefs  int
	DecRefs  int
	Allocs   int
}

func NewLedger() *Ledger {
	return &Ledger{Count: map[*gkvlite.Item]int{}, Harness: map[*gkvlite.Item]int{}, Tagged: map[*gkvlite.Item]bool{}, Dead: map[*gkvlite.Item]bool{}}
}

func (l *Ledger) Alloc(i *gkvlite.Item) {
	l.Count[i] = 1
	l.Allocs++
	if l.Pooled == nil {
		l.Pooled = map[*gkvlite.Item]bool{}
	}
	l.Pooled[i] = true
}
func (l *Ledger) New(i *gkvlite.Item)   { l.Count[i] = 1 }
func (l *Ledger) AddRef(i *gkvlite.Item) {
	l.LastAddRef = i
	if l.Dead[i] && len(l.Resurrected) < 5 {
		// a reference is taken on an item whose last reference had been
		// released: an application that recycles buffers at count 0 has
		// already reused it (premature release, C15)
		k := ""
		if i != nil {
			k = fmt.Sprintf("%q", i.Key)
		}
		l.Resurrected = append(l.Resurrected, fmt.Sprintf("item key=%s\n%s", k, trimStack(string(debug.Stack()))))
	}
	l.Count[i]++
	l.AddRefs++
}
func (l *Ledger) DecRef(i *gkvlite.Item) {
	l.Count[i]--
	l.DecRefs++
	if l.Count[i] == 0 {
		l.Dead[i] = true
		if l.Pooled[i] && !l.NoPoison {
			// what a recycling allocator (tools/slab) does with an item whose
			// last reference is gone: its buffers are reused.  Whoever still
			// reads the item afterwards sees this, deterministically.
			for k := range i.Key {
				i.Key[k] = 0xdd
			}
			for k := range i.Val {
				i.Val[k] = 0xdd
			}
			i.Priority = -0x0dddddd
			l.Poisoned++
		}
	}
	if l.Count[i] < 0 && len(l.Negative) < 5 {
		k := ""
		if i != nil {
			k = fmt.Sprintf("%q", i.Key)
		}
		l.Negative = append(l.Negative, fmt.Sprintf("item key=%s count=%d\n%s", k, l.Count[i], trimStack(string(debug.Stack()))))
	}
}

// Outstanding lists items with a non-zero count, sorted by key.
func (l *Ledger) Outstanding() []string {
	var res []string
	for it, c := range l.Count {
		if c != 0 {
			res = append(res, fmt.Sprintf("key=%q count=%d", it.Key, c))
		}
	}
	sort.Strings(res)
	return res
}

// ---------------------------------------------------------------------------
// helpers

func cloneBytes(b []byte) []byte {
	if b == nil {
		return nil
	}
	return append([]byte{}, b...)
}

func itemsDiff(got, want []MItem, checkVal, checkPrio bool) string {
	n := len(got)
	if len(want) < n {
		n = len(want)
	}
	for i := 0; i < n; i++ {
		if !bytes.Equal(got[i].K, want[i].K) {
			return fmt.Sprintf("position %d: got key %s, want key %s (got %d items, want %d)", i, showBytes(got[i].K), showBytes(want[i].K), len(got), len(want))
		}
		if checkVal && !bytes.Equal(got[i].V, want[i].V) {
			return fmt.Sprintf("position %d key %s: got value %s, want %s", i, showBytes(got[i].K), showBytes(got[i].V), showBytes(want[i].V))
		}
		if checkPrio && want[i].P != PrioUnknown && got[i].P != want[i].P {
			return fmt.Sprintf("position %d key %s: got priority %d, want %d", i, showBytes(got[i].K), got[i].P, want[i].P)
		}
	}
	if len(got) != len(want) {
		if len(got) > len(want) {
			return fmt.Sprintf("got %d items, want %d; first extra key %s", len(got), len(want), showBytes(got[n].K))
		}
		return fmt.Sprintf("got %d items, want %d; first missing key %s", len(got), len(want), showBytes(want[n].K))
	}
	return ""
}

// clearFaults ends the fault window of the current operation (checks that
// the harness itself runs inside an operation must not be faulted).
func (w *World) clearFaults() {
	if w.RecordIO && w.opIOSnap == nil {
		w.opIOSnap = w.ioCounts()
	}
	w.curFaults = nil
	for _, d := range w.Disks {
		d.BeginOp(nil)
	}
}

// ioCounts: StoreFile calls of the current operation so far, per disk.
func (w *World) ioCounts() map[int]map[byte]int {
	m := map[int]map[byte]int{}
	for _, d := range w.Disks {
		if c := d.OpCounts(); len(c) > 0 {
			m[d.ID] = c
		}
	}
	return m
}
