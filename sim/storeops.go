package sim

import (
	"bytes"
	"encoding/binary"
	"fmt"

	"github.com/cbehopkins/gkvlite"
)

// ---------------------------------------------------------------------------
// Reading a complete state through the public API

// ReadStoreState reads names and all items of a store.
func ReadStoreState(s *gkvlite.Store, cmpOf func(string) int) (st MState, err error) {
	st = MState{Colls: map[string]*MColl{}}
	defer func() {
		if r := recover(); r != nil {
			err = fmt.Errorf("panic while reading the store: %v", r)
		}
	}()
	for _, name := range s.GetCollectionNames() {
		c := s.GetCollection(name)
		if c == nil {
			return st, fmt.Errorf("collection %q listed but GetCollection returned nil", name)
		}
		cmp := 0
		if cmpOf != nil {
			cmp = cmpOf(name)
		}
		mc := &MColl{Cmp: cmp}
		minIt, err := c.MinItem(false)
		if err != nil {
			return st, fmt.Errorf("collection %q: MinItem: %v", name, err)
		}
		if minIt != nil {
			err = c.VisitItemsAscend(cloneBytes(minIt.Key), true, func(i *gkvlite.Item) bool {
				mc.Items = append(mc.Items, MItem{K: cloneBytes(i.Key), V: cloneBytes(i.Val), P: i.Priority})
				return true
			})
			if err != nil {
				return st, fmt.Errorf("collection %q: visit: %v", name, err)
			}
		}
		n, b, err := c.GetTotals()
		if err != nil {
			return st, fmt.Errorf("collection %q: GetTotals: %v", name, err)
		}
		wn, wb := mc.Totals()
		if n != wn || b != wb {
			return st, fmt.Errorf("collection %q: GetTotals=(%d,%d) but the visit delivered (%d,%d)", name, n, b, wn, wb)
		}
		st.Colls[name] = mc
	}
	return st, nil
}

// OpenImage opens a private copy of an image with the real NewStoreEx.
func OpenImage(img []byte, cmpOf func(string) int) (*gkvlite.Store, *SimDisk, error) {
	env := &DiskEnv{Fired: map[string]int{}, Counts: map[byte]int{}}
	d := NewSimDisk(0, env)
	d.SetImage(img)
	cb := gkvlite.StoreCallbacks{}
	if cmpOf != nil {
		cb.KeyCompareForCollection = func(name string) gkvlite.KeyCompare {
			id := cmpOf(name)
			return func(a, b []byte) int { return CompareRaw(id, a, b) }
		}
	}
	var s *gkvlite.Store
	var err error
	func() {
		defer func() {
			if r := recover(); r != nil {
				err = fmt.Errorf("panic in NewStore: %v", r)
			}
		}()
		s, err = gkvlite.NewStoreEx(d, cb)
	}()
	return s, d, err
}

// ReadImageState opens an image and reads everything.
func ReadImageState(img []byte, cmpOf func(string) int) (MState, error) {
	s, _, err := OpenImage(img, cmpOf)
	if err != nil {
		return MState{}, err
	}
	return ReadStoreState(s, cmpOf)
}

// ---------------------------------------------------------------------------
// CopyTo (C11)

func (w *World) opCopyTo(h *StoreH, op Op) {
	kind := "copyto"
	if w.store(op.N) != nil || op.N == h.ID || op.D < len(w.Disks) {
		w.Stats.Skipped++ // destination ids must be fresh
		return
	}
	dst := w.disk(op.D)
	fe := op.N2
	var srcBefore []byte
	srcLog := 0
	if h.Disk >= 0 {
		srcBefore = append([]byte(nil), w.Disks[h.Disk].Image()...)
		srcLog = len(w.Disks[h.Disk].Log)
	}
	w.copySrcDisk = h.Disk
	var s *gkvlite.Store
	var err error
	w.protect(kind, func() { s, err = h.S.CopyTo(dst, fe) })
	w.copySrcDisk = -1
	if w.Viol != nil {
		return
	}
	fired := w.faultFired()
	w.clearFaults() // everything below is the harness checking, not the call
	_ = fired
	what := fmt.Sprintf("CopyTo(flushEvery=%d) from s%d to disk %d", fe, h.ID, op.D)
	// the source must be untouched whatever happened
	if h.Disk >= 0 && w.judges(kind) {
		if !bytes.Equal(srcBefore, w.Disks[h.Disk].Image()) {
			w.fail("copyto-source-modified", kind, "%s: the source file changed", what)
			return
		}
		for _, e := range w.Disks[h.Disk].Log[srcLog:] {
			if e.Kind == 'W' || e.Kind == 'T' {
				w.fail("copyto-source-written", kind, "%s: %c call on the source file", what, e.Kind)
				return
			}
		}
	}
	if w.expectErr(kind, err, false, what) {
		if w.judges(kind) && w.Viol == nil {
			w.clearFaults()
			w.auditStore(h, kind)
		}
		return
	}
	if s == nil {
		w.fail("nil-store", kind, "%s returned nil store and nil error", what)
		return
	}
	nh := &StoreH{ID: op.N, S: s, Disk: op.D, Parent: -1, M: h.M.Clone()}
	w.setStore(nh)
	nItems := 0
	maxColl := 0
	for _, c := range h.M.Colls {
		nItems += len(c.Items)
		if len(c.Items) > maxColl {
			maxColl = len(c.Items)
		}
	}
	if fe > 0 {
		end, ok := w.lastWriteEnd(op.D, 0)
		if !ok {
			if w.judges(kind) {
				w.fail("copyto-not-flushed", kind, "%s: nothing was written to the destination", what)
			}
			return
		}
		w.Files[op.D].Flushes = append(w.Files[op.D].Flushes, MFlush{State: h.M.Clone(), End: end, LogSeq: len(dst.Log)})
		w.Files[op.D].mark(len(dst.Log))
		nh.SizeKnown, nh.Size = true, end
		w.durable[op.D] = end
		roots := AllRoots(dst.Image())
		if len(roots) != 1 {
			w.Files[op.D].Opaque = true
			w.probe("copyto-intermediate-flushes")
		}
		if w.CheckReads {
			w.indexValueRanges(op.D, end)
		}
	} else {
		nh.SizeKnown, nh.Size = true, 0
	}
	if !w.judges(kind) {
		return
	}
	// (1) same contents through the returned store
	w.auditStore(nh, kind)
	if w.Viol != nil {
		return
	}
	// (4) source still reads as its model
	w.auditStore(h, kind)
	if w.Viol != nil || fe <= 0 {
		if fe <= 0 && w.Viol == nil && dst.Size() != 0 {
			// nothing is promised about the file when flushEvery <= 0
			w.probe("copyto-noflush-wrote")
		}
		return
	}
	// (2) the destination file re-opens to the same state, by both readers
	img := dst.Image()
	cmpOf := w.cmpOfStore(nh)
	st, rerr := ReadImageState(img, cmpOf)
	if rerr != nil {
		w.fail("copyto-reopen", kind, "%s: re-opening the destination: %v", what, rerr)
		return
	}
	if d := stateDiff(st, h.M); d != "" {
		w.fail("copyto-reopen", kind, "%s: re-opened destination differs from the source: %s", what, d)
		return
	}
	dec := Decode(img, int64(len(img)), cmpOf)
	if dec == nil {
		w.fail("copyto-decode", kind, "%s: independent decoder finds no root record in the destination", what)
		return
	}
	if d := stateDiff(dec.State(cmpOf), h.M); d != "" {
		w.fail("copyto-decode", kind, "%s: independent decoder disagrees: %s", what, d)
		return
	}
	if p := dec.Problems(); len(p) > 0 {
		w.fail("layout", kind, "%s: destination layout: %s", what, p[0])
		return
	}
	// (3) compactness: only live data
	liveItems, liveNodes := dec.Reachable()
	for _, r := range AllRoots(img) {
		if r.End == dec.Rec.End {
			continue
		}
		od := DecodeAt(img, r, cmpOf)
		its, _ := od.Reachable()
		for off := range its {
			if _, ok := liveItems[off]; !ok {
				w.fail("copyto-not-compact", kind, "%s: the item record at %d, reachable from the intermediate root at %d, is superseded (not reachable from the final root)", what, off, r.Off)
				return
			}
		}
	}
	if fe > maxColl {
		w.probe("copyto-single-flush")
		var live int64
		for _, l := range liveItems {
			live += int64(l)
		}
		for _, l := range liveNodes {
			live += int64(l)
		}
		live += dec.Rec.End - dec.Rec.Off
		if live != int64(len(img)) {
			w.fail("copyto-not-compact", kind, "%s: destination is %d bytes but the records reachable from its single root record add up to %d", what, len(img), live)
			return
		}
	}
	_ = nItems
}

// ---------------------------------------------------------------------------
// Crash (C03): the process dies; only disk images survive.

type CrashSpec struct {
	// Writes: number of W/T entries of the disk log (counted from the
	// beginning of the world, over entries that changed the image) that
	// are completely applied; -1: all.
	Writes int `json:"writes"`
	// Torn: bytes of the next write that also reached the disk.
	Torn int `json:"torn,omitempty"`
	// Junk tail appended after the cut.
	Junk     int    `json:"junk,omitempty"`
	JunkSeed uint64 `json:"junk_seed,omitempty"`
	JunkLen  int    `json:"junk_len,omitempty"`
}

// A 'C' log entry marks an image replaced by a crash; Data holds it.

// imageAt rebuilds the image of disk d when `writes` image-changing log
// entries are applied and `torn` bytes of the following write.  It also
// returns the log position (number of log entries) the image covers.
func imageAt(d *SimDisk, writes int, torn int) (img []byte, logPos int, inFlight *DiskOp) {
	cnt := 0
	pos := 0
	applyW := func(e *DiskOp, n int) {
		if n <= 0 || e.Off < 0 {
			return
		}
		end := e.Off + int64(n)
		if end > int64(len(img)) {
			img = append(img, make([]byte, end-int64(len(img)))...)
		}
		copy(img[e.Off:], e.Data[:n])
	}
	// Everything before the last crash marker is history of an earlier
	// process: the marker holds the image that survived, and no cut can lie
	// before it.  Changes before it still count, so that the numbering of
	// cut points is the same before and after a crash.
	first := 0
	for i := len(d.Log) - 1; i >= 0; i-- {
		if d.Log[i].Kind == 'C' {
			first = i
			break
		}
	}
	for i := 0; i < first; i++ {
		e := &d.Log[i]
		if (e.Kind == 'W' && (!e.Err || e.N > 0)) || (e.Kind == 'T' && !e.Err) {
			cnt++
		}
	}
	for i := first; i < len(d.Log); i++ {
		e := &d.Log[i]
		changing := false
		switch e.Kind {
		case 'C':
			img = append(img[:0], e.Data...)
			pos = i + 1
			continue
		case 'W':
			changing = !e.Err || e.N > 0
		case 'T':
			changing = !e.Err
		}
		if !changing {
			if writes < 0 || cnt < writes {
				pos = i + 1
			}
			continue
		}
		if writes >= 0 && cnt >= writes {
			// first change not applied completely
			if e.Kind == 'W' && torn > 0 {
				n := torn
				if n > e.N {
					n = e.N
				}
				applyW(e, n)
			}
			return img, pos, e
		}
		if e.Kind == 'W' {
			applyW(e, e.N)
		} else {
			if e.Off <= int64(len(img)) {
				img = img[:e.Off]
			} else {
				img = append(img, make([]byte, e.Off-int64(len(img)))...)
			}
		}
		cnt++
		pos = i + 1
	}
	return img, pos, nil
}

// countChanges returns the number of image-changing entries in the log.
func countChanges(d *SimDisk) int {
	cnt := 0
	for i := range d.Log {
		e := &d.Log[i]
		switch e.Kind {
		case 'W':
			if !e.Err || e.N > 0 {
				cnt++
			}
		case 'T':
			if !e.Err {
				cnt++
			}
		}
	}
	return cnt
}

// junkTail builds an adversarial tail.  start is the offset at which it
// will be placed.
func junkTail(kind int, seed uint64, n int, img []byte, start int64) []byte {
	r := NewRng(seed)
	if n <= 0 {
		n = 1 + r.Intn(64)
	}
	switch kind {
	case 1:
		return r.Bytes(n)
	case 2:
		var b []byte
		for len(b) < n {
			switch r.Intn(4) {
			case 0:
				b = append(b, decMagicEnd...)
				b = append(b, decMagicEnd...)
			case 1:
				b = append(b, decMagicBeg...)
				b = append(b, decMagicBeg...)
			case 2:
				b = append(b, r.Bytes(1+r.Intn(12))...)
			case 3:
				// a trailer-shaped fragment: offset, length, magics
				t := make([]byte, 12)
				binary.BigEndian.PutUint64(t[0:8], uint64(r.Intn(int(start)+1)))
				binary.BigEndian.PutUint32(t[8:12], uint32(r.Intn(200)))
				b = append(b, t...)
				b = append(b, decMagicEnd...)
				b = append(b, decMagicEnd...)
			}
		}
		return b
	case 3, 4:
		roots := AllRoots(img)
		if len(roots) == 0 {
			return r.Bytes(n)
		}
		rec := roots[r.Intn(len(roots))]
		cp := append([]byte(nil), img[rec.Off:rec.End]...)
		if kind == 3 {
			// torn copy: a proper prefix or a proper suffix
			if len(cp) < 3 {
				return cp[:1]
			}
			k := 1 + r.Intn(len(cp)-1)
			if r.Bool(0.5) {
				return cp[:k]
			}
			return cp[len(cp)-k:]
		}
		// relocated complete copy: never at its own offset
		if start == rec.Off {
			cp = append([]byte{0}, cp...)
		}
		return cp
	}
	return nil
}

// CrashImage builds the surviving image of disk d for a crash spec and
// the flush stack that must be recovered from it.
func (w *World) CrashImage(di int, cs *CrashSpec) (img []byte, stack []MFlush) {
	d := w.Disks[di]
	base, pos, inFlight := imageAt(d, cs.Writes, cs.Torn)
	img = append([]byte(nil), base...)
	if cs.Junk > 0 {
		junk := junkTail(cs.Junk, cs.JunkSeed, cs.JunkLen, img, int64(len(img)))
		// The tail must stay junk: it may not happen to continue the write
		// in flight (all root records end in the same magic bytes, so a
		// torn copy of an older one could otherwise complete a record whose
		// last bytes are missing, which would make that flush durable).
		if inFlight != nil && inFlight.Kind == 'W' && len(junk) > 0 {
			at := int64(len(base)) - inFlight.Off
			if at >= 0 && at < int64(len(inFlight.Data)) && junk[0] == inFlight.Data[at] {
				junk[0] ^= 0xff
			}
		}
		img = append(img, junk...)
		// More generally the tail may not complete anything: no complete,
		// self-consistent root record may end inside it (for instance the
		// closing magic bytes right behind a record that an earlier crash of
		// the same history had cut 12 bytes short).  The property excludes
		// junk that is or completes such a record.
		junkMakesRoot := func() bool {
			for end := int64(len(base)) + 1; end <= int64(len(img)); end++ {
				if rootRecordAt(img, end) != nil {
					return true
				}
			}
			return false
		}
		if junkMakesRoot() {
			img[len(base)] ^= 0xff
			if junkMakesRoot() {
				img = img[:len(base)]
			}
			w.probe("crash-junk-tail-would-complete-a-root-record-altered")
		}
	}
	// The oracle is a function of the surviving image, not of how it came
	// about: when the bytes already in the file behind the write position
	// (the unflushed tail of an earlier process that a re-open or a
	// recovery stepped back over) happen to equal the missing rest of the
	// torn write, the image is the very image of the crash point one write
	// later, and that is what must be recovered from it.
	if inFlight != nil && inFlight.Kind == 'W' && cs.Torn > 0 {
		full, posFull, _ := imageAt(d, cs.Writes+1, 0)
		if len(img) >= len(full) && bytes.Equal(img[:len(full)], full) {
			w.probe("crash-torn-write-completed-by-stale-tail")
			pos = posFull
		}
	}
	return img, w.Files[di].StackAt(pos)
}

func (w *World) opCrash(op Op) {
	if op.D < 0 || op.D >= len(w.Disks) || op.Crash == nil {
		w.Stats.Skipped++
		return
	}
	img, stack := w.CrashImage(op.D, op.Crash)
	// the process is gone: every handle dies, nothing is closed
	for _, h := range w.Stores {
		if h != nil {
			h.Closed = true
		}
	}
	d := w.Disks[op.D]
	d.SetImage(img)
	d.Log = append(d.Log, DiskOp{Kind: 'C', Data: append([]byte(nil), img...), Op: w.OpIdx})
	f := w.Files[op.D]
	f.Flushes = append([]MFlush(nil), stack...)
	f.mark(len(d.Log))
	if top, ok := f.Top(); ok {
		w.durable[op.D] = top.End
	} else {
		w.durable[op.D] = 0
	}
	w.valRanges = nil
	w.probe("crash")
}
