package sim

import (
	"bytes"
	"sort"
)

// Reference model: a sorted map per collection, a name map per store, a
// stack of flushed states per file.  Trivial on purpose; never reads
// gkvlite state.

// Comparator ids (shared by model and harness).
const (
	CmpBytes = iota
	CmpReverse
	CmpLenFirst
	CmpRevKey
	NumCmp
)

func reverseBytes(a []byte) []byte {
	r := make([]byte, len(a))
	for i := range a {
		r[len(a)-1-i] = a[i]
	}
	return r
}

// CompareRaw is the comparison without any park point.
func CompareRaw(id int, a, b []byte) int {
	switch id {
	case CmpReverse:
		return bytes.Compare(b, a)
	case CmpLenFirst:
		if len(a) != len(b) {
			if len(a) < len(b) {
				return -1
			}
			return 1
		}
		return bytes.Compare(a, b)
	case CmpRevKey:
		return bytes.Compare(reverseBytes(a), reverseBytes(b))
	}
	return bytes.Compare(a, b)
}

const PrioUnknown = int32(-1)

type MItem struct {
	K, V []byte
	P    int32 // PrioUnknown when chosen by the library (Set)
}

// MColl is immutable once shared: mutators return a new value.
type MColl struct {
	Cmp   int
	Items []MItem
	// Lowered is true once some key has been overwritten with a lower
	// priority than it had (heap order no longer promised, C13), or a
	// library-chosen priority is present.
	Lowered bool
	Unknown bool // some priority unknown
}

func (c *MColl) find(k []byte) (int, bool) {
	i := sort.Search(len(c.Items), func(i int) bool { return CompareRaw(c.Cmp, c.Items[i].K, k) >= 0 })
	if i < len(c.Items) && CompareRaw(c.Cmp, c.Items[i].K, k) == 0 {
		return i, true
	}
	return i, false
}

func (c *MColl) Get(k []byte) (MItem, bool) {
	i, ok := c.find(k)
	if !ok {
		return MItem{}, false
	}
	return c.Items[i], true
}

func (c *MColl) Set(it MItem) *MColl {
	n := &MColl{Cmp: c.Cmp, Lowered: c.Lowered, Unknown: c.Unknown}
	i, ok := c.find(it.K)
	if it.P == PrioUnknown {
		n.Unknown = true
	}
	if ok {
		n.Items = make([]MItem, len(c.Items))
		copy(n.Items, c.Items)
		old := n.Items[i]
		if it.P == PrioUnknown || old.P == PrioUnknown || it.P < old.P {
			n.Lowered = true
		}
		n.Items[i] = it
		return n
	}
	n.Items = make([]MItem, 0, len(c.Items)+1)
	n.Items = append(n.Items, c.Items[:i]...)
	n.Items = append(n.Items, it)
	n.Items = append(n.Items, c.Items[i:]...)
	return n
}

func (c *MColl) Delete(k []byte) (*MColl, bool) {
	i, ok := c.find(k)
	if !ok {
		return c, false
	}
	n := &MColl{Cmp: c.Cmp, Lowered: c.Lowered, Unknown: c.Unknown}
	n.Items = make([]MItem, 0, len(c.Items)-1)
	n.Items = append(n.Items, c.Items[:i]...)
	n.Items = append(n.Items, c.Items[i+1:]...)
	return n, true
}

func (c *MColl) Totals() (uint64, uint64) {
	var b uint64
	for _, it := range c.Items {
		b += uint64(len(it.K) + len(it.V))
	}
	return uint64(len(c.Items)), b
}

// Ascend returns items with key >= target in ascending order.
func (c *MColl) Ascend(target []byte) []MItem {
	i := sort.Search(len(c.Items), func(i int) bool { return CompareRaw(c.Cmp, c.Items[i].K, target) >= 0 })
	return c.Items[i:]
}

// Descend returns items with key < target in descending order.
func (c *MColl) Descend(target []byte) []MItem {
	i := sort.Search(len(c.Items), func(i int) bool { return CompareRaw(c.Cmp, c.Items[i].K, target) >= 0 })
	res := make([]MItem, i)
	for j := 0; j < i; j++ {
		res[j] = c.Items[i-1-j]
	}
	return res
}

// WithCmp returns the same items under another comparator id (used by
// SetCollection on an existing name; the generator only installs
// order-equivalent comparators there).
func (c *MColl) WithCmp(id int) *MColl {
	return &MColl{Cmp: id, Items: c.Items, Lowered: c.Lowered, Unknown: c.Unknown}
}

// CanonicalDepths returns, when priorities are distinct and known, the
// depth of every item in the unique treap (Cartesian tree) over the
// items; ok=false otherwise.
func (c *MColl) CanonicalDepths() (depths []int, ok bool) {
	if c.Unknown {
		return nil, false
	}
	seen := map[int32]bool{}
	for _, it := range c.Items {
		if seen[it.P] {
			return nil, false
		}
		seen[it.P] = true
	}
	depths = make([]int, len(c.Items))
	var rec func(lo, hi, d int)
	rec = func(lo, hi, d int) {
		if lo >= hi {
			return
		}
		m := lo
		for i := lo + 1; i < hi; i++ {
			if c.Items[i].P > c.Items[m].P {
				m = i
			}
		}
		depths[m] = d
		rec(lo, m, d+1)
		rec(m+1, hi, d+1)
	}
	rec(0, len(c.Items), 0)
	return depths, true
}

// MState is the complete logical state of a store.
type MState struct {
	Colls map[string]*MColl
}

func (s MState) Clone() MState {
	n := MState{Colls: make(map[string]*MColl, len(s.Colls))}
	for k, v := range s.Colls {
		n.Colls[k] = v
	}
	return n
}

func (s MState) Names() []string {
	res := make([]string, 0, len(s.Colls))
	for k := range s.Colls {
		res = append(res, k)
	}
	sort.Strings(res)
	return res
}

func EqualItems(a, b []MItem, checkPrio bool) bool {
	if len(a) != len(b) {
		return false
	}
	for i := range a {
		if !bytes.Equal(a[i].K, b[i].K) || !bytes.Equal(a[i].V, b[i].V) {
			return false
		}
		if checkPrio && a[i].P != PrioUnknown && b[i].P != PrioUnknown && a[i].P != b[i].P {
			return false
		}
	}
	return true
}

// EqualState compares two states including names, items and priorities.
func EqualState(a, b MState) bool {
	if len(a.Colls) != len(b.Colls) {
		return false
	}
	for k, ca := range a.Colls {
		cb, ok := b.Colls[k]
		if !ok || !EqualItems(ca.Items, cb.Items, true) {
			return false
		}
	}
	return true
}

// MFlush is one flushed state of a file.
type MFlush struct {
	State  MState
	End    int64 // file offset just past the flush's root record
	LogSeq int   // disk log length when the flush had completed
}

// MFile models what a file durably holds: a stack of flushes.
type MFile struct {
	Flushes []MFlush
	// Opaque: the file holds intermediate flushes whose states are not
	// modelled (CopyTo destination); reverts on it are not generated.
	Opaque bool
	// Timeline: the flush stack as it was once the disk log had reached
	// LogPos entries (appended whenever the stack changes): what a crash
	// at a given log position must recover.
	Timeline []TLEntry
}

type TLEntry struct {
	LogPos int
	Stack  []MFlush
}

// mark records the current stack at the given disk-log position.
func (f *MFile) mark(logPos int) {
	f.Timeline = append(f.Timeline, TLEntry{LogPos: logPos, Stack: append([]MFlush(nil), f.Flushes...)})
}

// StackAt returns the flush stack durable when exactly logPos log
// entries had been applied.
func (f *MFile) StackAt(logPos int) []MFlush {
	var res []MFlush
	for _, e := range f.Timeline {
		if e.LogPos <= logPos {
			res = e.Stack
		}
	}
	return res
}

func (f *MFile) Top() (MFlush, bool) {
	if len(f.Flushes) == 0 {
		return MFlush{State: MState{Colls: map[string]*MColl{}}}, false
	}
	return f.Flushes[len(f.Flushes)-1], true
}
