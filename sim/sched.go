package sim

import (
	"fmt"
	"runtime"
	"sort"
	"sync"
)

// Token-passing scheduler.  Every goroutine of a run (harness tasks and
// gkvlite's own iterator producers) parks in Yield; the scheduler waits
// until the whole bubble is quiescent (testing/synctest), then releases
// exactly one parked goroutine chosen from the run's PRNG.  So at most
// one goroutine runs between two decisions, and the decision sequence is
// a pure function of the seed (or of a recorded schedule).

var DebugSched bool

type entity struct {
	kind     string // API operation the goroutine is executing (read-range oracle)
	wv       bool
	name     string
	children int
	weight   float64
	done     bool
}

type waiter struct {
	ent  *entity
	site string
	ch   chan struct{}
}

type Sched struct {
	mu       sync.Mutex
	rng      *Rng
	active   bool
	ents     map[uint64]*entity
	cur      *entity
	waiters  []*waiter
	clock    int
	steps    int
	MaxSteps int
	Log      []string // released entity names, one per step
	Replay   []string // when non-nil: tolerant replay of a recorded schedule
	Armed    map[string]bool
	SiteHits map[string]int
	Switches int
	lastRel  string
	live     int // harness tasks not finished
	Wait     func()
	Deadlock string
	weights  map[string]float64
	serial   bool
}

func NewSched(rng *Rng) *Sched {
	return &Sched{rng: rng, ents: map[uint64]*entity{}, Armed: map[string]bool{}, SiteHits: map[string]int{}, MaxSteps: 20000, weights: map[string]float64{}}
}

// goid returns the current goroutine's id.
func goid() uint64 {
	var buf [48]byte
	n := runtime.Stack(buf[:], false)
	// "goroutine 123 ["
	var id uint64
	for i := len("goroutine "); i < n; i++ {
		c := buf[i]
		if c < '0' || c > '9' {
			break
		}
		id = id*10 + uint64(c-'0')
	}
	return id
}

// Tick advances the global event clock (history timestamps).
func (s *Sched) Tick() int {
	s.mu.Lock()
	s.clock++
	c := s.clock
	s.mu.Unlock()
	return c
}

func siteClass(site string) string {
	switch {
	case len(site) >= 3 && site[:3] == "op-":
		return "op"
	case len(site) >= 5 && site[:5] == "disk-":
		return "disk"
	case len(site) >= 3 && site[:3] == "cb-":
		return "cb"
	}
	return site
}

// Yield parks the calling goroutine until the scheduler releases it.
func (s *Sched) Yield(site string) {
	if s == nil || !s.active {
		return
	}
	cls := siteClass(site)
	s.mu.Lock()
	s.SiteHits[cls]++
	if cls != "op" && cls != "task-start" && !s.Armed[cls] {
		s.mu.Unlock()
		return
	}
	id := goid()
	ent := s.ents[id]
	if ent == nil {
		// a goroutine started by gkvlite (iterator producer): named after
		// the entity that was released last, in order of first appearance
		parent := s.cur
		pname := "?"
		if parent != nil {
			pname = parent.name
			parent.children++
			ent = &entity{name: fmt.Sprintf("%s.g%d", pname, parent.children), weight: parent.weight, kind: parent.kind, wv: parent.wv}
		} else {
			ent = &entity{name: "orphan", weight: 1}
		}
		s.ents[id] = ent
	}
	w := &waiter{ent: ent, site: site, ch: make(chan struct{})}
	s.waiters = append(s.waiters, w)
	s.mu.Unlock()
	<-w.ch
}

// Go starts a harness task under the scheduler.
func (s *Sched) Go(name string, weight float64, f func()) {
	s.mu.Lock()
	s.active = true // before the task can reach its first park point
	s.live++
	s.mu.Unlock()
	go func() {
		ent := &entity{name: name, weight: weight}
		s.mu.Lock()
		s.ents[goid()] = ent
		s.mu.Unlock()
		s.Yield("task-start")
		defer func() {
			s.mu.Lock()
			ent.done = true
			s.live--
			s.mu.Unlock()
		}()
		f()
	}()
}

// Run is the scheduler loop; it returns when every task has finished, on
// deadlock, or when the step bound is exceeded (then tasks are run to
// completion in name order).
func (s *Sched) Run() {
	defer func() { s.active = false }()
	ri := 0
	for {
		s.Wait() // every goroutine in the bubble is parked or durably blocked
		s.mu.Lock()
		if len(s.waiters) == 0 {
			if s.live > 0 {
				s.Deadlock = fmt.Sprintf("%d task(s) unfinished and nothing can run: every goroutine is blocked for ever", s.live)
			}
			s.mu.Unlock()
			return
		}
		sort.SliceStable(s.waiters, func(i, j int) bool { return s.waiters[i].ent.name < s.waiters[j].ent.name })
		if DebugSched && s.steps < 12 {
			var ns []string
			for _, w := range s.waiters {
				ns = append(ns, fmt.Sprintf("%s@%s(%.1f)", w.ent.name, w.site, w.ent.weight))
			}
			fmt.Println("STEP", s.steps, "live", s.live, ns)
		}
		pick := 0
		switch {
		case s.Replay != nil:
			if ri < len(s.Replay) {
				for i, w := range s.waiters {
					if w.ent.name == s.Replay[ri] {
						pick = i
						break
					}
				}
				ri++
			}
		case s.serial || s.steps >= s.MaxSteps:
			pick = 0
		default:
			ws := make([]float64, len(s.waiters))
			for i, w := range s.waiters {
				ws[i] = w.ent.weight
				if ws[i] <= 0 {
					ws[i] = 1
				}
				// staying with the entity released last is a little more
				// likely: long uninterrupted stretches and rapid switching
				// both occur
				if w.ent.name == s.lastRel {
					ws[i] *= s.weights["stay"]
				}
			}
			pick = s.rng.Pick(ws)
		}
		w := s.waiters[pick]
		s.waiters = append(s.waiters[:pick], s.waiters[pick+1:]...)
		s.steps++
		s.clock++
		s.Log = append(s.Log, w.ent.name)
		if s.lastRel != "" && s.lastRel != w.ent.name {
			s.Switches++
		}
		s.lastRel = w.ent.name
		s.cur = w.ent
		s.mu.Unlock()
		close(w.ch)
	}
}

// SetOp records which API operation the calling goroutine is executing.
func (s *Sched) SetOp(kind string, wv bool) {
	s.mu.Lock()
	if ent := s.ents[goid()]; ent != nil {
		ent.kind, ent.wv = kind, wv
	}
	s.mu.Unlock()
}

// OpOf returns the operation of the calling goroutine; a goroutine not
// yet known (an iterator producer before its first park) works on behalf
// of the entity released last.
func (s *Sched) OpOf() (string, bool) {
	s.mu.Lock()
	defer s.mu.Unlock()
	if ent := s.ents[goid()]; ent != nil {
		return ent.kind, ent.wv
	}
	if s.cur != nil {
		return s.cur.kind, s.cur.wv
	}
	return "", false
}
