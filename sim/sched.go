package sim

import (
	"fmt"
	"runtime"
	"sort"
	"strings"
	"sync"
)

// Token-passing scheduler.  Every goroutine of a run (harness tasks and
// gkvlite's own iterator producers) parks in Yield; the scheduler waits
// until the whole bubble is quiescent (testing/synctest), then releases
// exactly one parked goroutine chosen from the run's PRNG.  So at most
// one goroutine runs between two decisions, and the decision sequence is
// a pure function of the seed (or of a recorded schedule).

var DebugSched bool

type entity struct {
	kind     string // API operation the goroutine is executing (read-range oracle)
	wv       bool
	name     string
	children int
	weight   float64
	done     bool
}

type waiter struct {
	ent   *entity
	site  string
	ch    chan struct{}
	wants interface{} // the gkvlite lock the goroutine is about to acquire, if any
}

type Sched struct {
	mu       sync.Mutex
	rng      *Rng
	active   bool
	ents     map[uint64]*entity
	cur      *entity
	waiters  []*waiter
	clock    int
	steps    int
	MaxSteps int
	Log      []string // released entity names, one per step
	Replay   []string // when non-nil: tolerant replay of a recorded schedule
	Armed    map[string]bool
	SiteHits map[string]int
	Switches int
	lastRel  string
	live     int // harness tasks not finished
	Wait     func()
	Deadlock string
	weights  map[string]float64
	serial   bool
	// model of gkvlite's mutexes (hook VerifLockHook): a goroutine that
	// wants a held lock stays parked instead of blocking on the real
	// mutex, and a state in which every parked goroutine waits for a held
	// lock is a deadlock of gkvlite, not of the simulator
	owner    map[interface{}]*entity
	LockName func(lock interface{}) string
}

var harnessEnt = &entity{name: "(harness)"}

func NewSched(rng *Rng) *Sched {
	return &Sched{rng: rng, ents: map[uint64]*entity{}, Armed: map[string]bool{}, SiteHits: map[string]int{}, MaxSteps: 20000, weights: map[string]float64{}, owner: map[interface{}]*entity{}}
}

// goid returns the current goroutine's id.
func goid() uint64 {
	var buf [48]byte
	n := runtime.Stack(buf[:], false)
	// "goroutine 123 ["
	var id uint64
	for i := len("goroutine "); i < n; i++ {
		c := buf[i]
		if c < '0' || c > '9' {
			break
		}
		id = id*10 + uint64(c-'0')
	}
	return id
}

// Tick advances the global event clock (history timestamps).
func (s *Sched) Tick() int {
	s.mu.Lock()
	s.clock++
	c := s.clock
	s.mu.Unlock()
	return c
}

func siteClass(site string) string {
	switch {
	case len(site) >= 3 && site[:3] == "op-":
		return "op"
	case len(site) >= 5 && site[:5] == "disk-":
		return "disk"
	case len(site) >= 3 && site[:3] == "cb-":
		return "cb"
	}
	return site
}

// Yield parks the calling goroutine until the scheduler releases it.
func (s *Sched) Yield(site string) {
	if s == nil || !s.active {
		return
	}
	cls := siteClass(site)
	s.mu.Lock()
	s.SiteHits[cls]++
	if cls != "op" && cls != "task-start" && !s.Armed[cls] {
		s.mu.Unlock()
		return
	}
	ent := s.entLocked(goid())
	w := &waiter{ent: ent, site: site, ch: make(chan struct{})}
	s.waiters = append(s.waiters, w)
	s.mu.Unlock()
	<-w.ch
}

// entLocked returns the entity of goroutine id, creating one for a
// goroutine started by gkvlite (iterator producer): named after the
// entity that was released last, in order of first appearance.
func (s *Sched) entLocked(id uint64) *entity {
	ent := s.ents[id]
	if ent == nil {
		parent := s.cur
		if parent != nil {
			parent.children++
			ent = &entity{name: fmt.Sprintf("%s.g%d", parent.name, parent.children), weight: parent.weight, kind: parent.kind, wv: parent.wv}
		} else {
			ent = &entity{name: "orphan", weight: 1}
		}
		s.ents[id] = ent
	}
	return ent
}

// Lock events of gkvlite.VerifLockHook.
const (
	lockWant = 0
	lockHeld = 1
	lockFree = 2
)

// LockEvent is gkvlite.VerifLockHook during a scheduled run.
func (s *Sched) LockEvent(lock interface{}, ev int) {
	if s == nil {
		return
	}
	s.mu.Lock()
	switch ev {
	case lockHeld:
		if s.active {
			s.owner[lock] = s.entLocked(goid())
		} else {
			s.owner[lock] = harnessEnt
		}
		s.mu.Unlock()
	case lockFree:
		delete(s.owner, lock)
		s.mu.Unlock()
	case lockWant:
		if !s.active {
			s.mu.Unlock()
			return
		}
		s.SiteHits["lock"]++
		if s.owner[lock] == nil && !s.Armed["lock"] {
			s.mu.Unlock()
			return
		}
		ent := s.entLocked(goid())
		name := "lock"
		if s.LockName != nil {
			name = "lock-" + s.LockName(lock)
		}
		if s.owner[lock] != nil {
			s.SiteHits["lock-contended"]++
		}
		w := &waiter{ent: ent, site: name, ch: make(chan struct{}), wants: lock}
		s.waiters = append(s.waiters, w)
		s.mu.Unlock()
		<-w.ch
	default:
		s.mu.Unlock()
	}
}

// lockCycle describes who waits for whom when nothing can run.
func (s *Sched) lockCycle() string {
	var parts []string
	for _, w := range s.waiters {
		if w.wants == nil {
			continue
		}
		own := s.owner[w.wants]
		on := "?"
		if own != nil {
			on = own.name
		}
		var holds []string
		for l, o := range s.owner {
			if o == w.ent {
				n := "lock"
				if s.LockName != nil {
					n = s.LockName(l)
				}
				holds = append(holds, n)
			}
		}
		sort.Strings(holds)
		parts = append(parts, fmt.Sprintf("%s waits at %s (held by %s) while holding %v", w.ent.name, w.site, on, holds))
	}
	return strings.Join(parts, "; ")
}

// Go starts a harness task under the scheduler.
func (s *Sched) Go(name string, weight float64, f func()) {
	s.mu.Lock()
	s.active = true // before the task can reach its first park point
	s.live++
	s.mu.Unlock()
	go func() {
		ent := &entity{name: name, weight: weight}
		s.mu.Lock()
		s.ents[goid()] = ent
		s.mu.Unlock()
		s.Yield("task-start")
		defer func() {
			s.mu.Lock()
			ent.done = true
			s.live--
			s.mu.Unlock()
		}()
		f()
	}()
}

// Run is the scheduler loop; it returns when every task has finished, on
// deadlock, or when the step bound is exceeded (then tasks are run to
// completion in name order).
func (s *Sched) Run() {
	defer func() { s.active = false }()
	ri := 0
	for {
		s.Wait() // every goroutine in the bubble is parked or durably blocked
		s.mu.Lock()
		if len(s.waiters) == 0 {
			if s.live > 0 {
				s.Deadlock = fmt.Sprintf("%d task(s) unfinished and nothing can run: every goroutine is blocked for ever", s.live)
			}
			s.mu.Unlock()
			return
		}
		sort.SliceStable(s.waiters, func(i, j int) bool { return s.waiters[i].ent.name < s.waiters[j].ent.name })
		// only goroutines whose wanted lock is free can run
		var elig []int
		for i, w := range s.waiters {
			if w.wants == nil || s.owner[w.wants] == nil {
				elig = append(elig, i)
			}
		}
		if len(elig) == 0 {
			s.Deadlock = "lock cycle: " + s.lockCycle()
			s.mu.Unlock()
			return
		}
		if DebugSched && s.steps < 12 {
			var ns []string
			for _, w := range s.waiters {
				ns = append(ns, fmt.Sprintf("%s@%s(%.1f)", w.ent.name, w.site, w.ent.weight))
			}
			fmt.Println("STEP", s.steps, "live", s.live, ns)
		}
		pick := elig[0]
		switch {
		case s.Replay != nil:
			if ri < len(s.Replay) {
				for _, i := range elig {
					if s.waiters[i].ent.name == s.Replay[ri] {
						pick = i
						break
					}
				}
				ri++
			}
		case s.serial || s.steps >= s.MaxSteps:
			pick = elig[0]
		default:
			ws := make([]float64, len(elig))
			for i, wi := range elig {
				w := s.waiters[wi]
				ws[i] = w.ent.weight
				if ws[i] <= 0 {
					ws[i] = 1
				}
				// staying with the entity released last is a little more
				// likely: long uninterrupted stretches and rapid switching
				// both occur
				if w.ent.name == s.lastRel {
					ws[i] *= s.weights["stay"]
				}
			}
			pick = elig[s.rng.Pick(ws)]
		}
		w := s.waiters[pick]
		s.waiters = append(s.waiters[:pick], s.waiters[pick+1:]...)
		s.steps++
		s.clock++
		s.Log = append(s.Log, w.ent.name)
		if s.lastRel != "" && s.lastRel != w.ent.name {
			s.Switches++
		}
		s.lastRel = w.ent.name
		s.cur = w.ent
		s.mu.Unlock()
		close(w.ch)
	}
}

// SetOp records which API operation the calling goroutine is executing.
func (s *Sched) SetOp(kind string, wv bool) {
	s.mu.Lock()
	if ent := s.ents[goid()]; ent != nil {
		ent.kind, ent.wv = kind, wv
	}
	s.mu.Unlock()
}

// OpOf returns the operation of the calling goroutine; a goroutine not
// yet known (an iterator producer before its first park) works on behalf
// of the entity released last.
func (s *Sched) OpOf() (string, bool) {
	s.mu.Lock()
	defer s.mu.Unlock()
	if ent := s.ents[goid()]; ent != nil {
		return ent.kind, ent.wv
	}
	if s.cur != nil {
		return s.cur.kind, s.cur.wv
	}
	return "", false
}
