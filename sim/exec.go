package sim

import (
	"encoding/json"
	"strings"
	"bytes"
	"fmt"
	"sort"

	"github.com/cbehopkins/gkvlite"
)

// Exec runs one top-level operation of a trace against the real code,
// compares with the model and updates the model.  Unknown handles or
// collections make the operation a no-op (so shrunk traces stay valid).
func (w *World) Exec(idx int, op Op) {
	w.OpIdx = idx
	w.sub = 0
	w.Env.CurOp = idx
	w.Env.CurSub = 0
	w.Env.FiredInOp = 0
	w.Env.FiredInEvict = 0
	w.Env.BudgetUsed = 0
	w.Env.BudgetHit = false
	total := int64(0)
	w.curFaults = op.Faults
	for _, d := range w.Disks {
		d.BeginOp(op.Faults)
		total += d.Size()
	}
	w.Env.Budget = int(64*total) + (1 << 22)
	logPos := make([]int, len(w.Disks))
	for i, d := range w.Disks {
		logPos[i] = len(d.Log)
	}
	w.Stats.Steps++
	w.opIOSnap = nil
	Progress.Add(1)
	w.exec1(op)
	if w.Env.TornShifted > 0 {
		w.Stats.Probes["torn-write-moved-off-identical-stale-bytes"] += w.Env.TornShifted
		w.Env.TornShifted = 0
	}
	if w.Env.BudgetHit && w.Viol == nil {
		w.fail("io-budget", op.Kind, "operation exceeded its I/O budget of %d StoreFile calls (non-termination)", w.Env.Budget)
	}
	if w.RecordIO {
		// calls of the API call itself (not of checks the harness ran
		// inside the operation afterwards)
		m := w.opIOSnap
		if m == nil {
			m = w.ioCounts()
		}
		for len(w.OpIO) <= idx {
			w.OpIO = append(w.OpIO, nil)
		}
		w.OpIO[idx] = m
	}
	if w.faultFired() && w.Viol == nil && w.CheckDecode {
		// (C07c) the durable states already in the file survive a failed call
		for di := range w.Disks {
			if len(w.Files[di].Flushes) > 0 {
				w.checkDurableIntact(di, op.Kind)
			}
		}
	}
	w.afterOp(op, logPos)
	for _, d := range w.Disks {
		d.BeginOp(nil)
	}
}

func (w *World) faultFired() bool { return w.Env.FiredInOp > 0 }

func kindTag(kind string, h *StoreH) string {
	if h != nil && h.Snap {
		return kind + "@snap"
	}
	return kind
}

// exec1 executes an operation (top-level or nested).
func (w *World) exec1(op Op) {
	if w.Viol != nil || w.Aborted {
		return
	}
	w.Stats.Ops[op.Kind]++
	prevKind := w.Env.CurKind
	prevSub := w.Env.CurSub
	w.sub++
	w.Env.CurSub = w.sub
	defer func() { w.Env.CurKind = prevKind; w.Env.CurSub = prevSub }()
	w.yield("op-" + op.Kind)
	switch op.Kind {
	case "open":
		w.Env.CurKind = "open"
		w.opOpen(op)
		return
	case "crash":
		w.Env.CurKind = "crash"
		w.opCrash(op)
		return
	case "audit":
		w.Env.CurKind = "audit"
		w.opAudit(op)
		return
	case "releaseall":
		w.opReleaseAll(op)
		return
	}
	h := w.usable(op.S)
	if h == nil || (h.needReopen && op.Kind != "reopen") {
		w.Stats.Skipped++
		return
	}
	w.Env.CurKind = kindTag(op.Kind, h)
	if h.Snap || len(op.Nested) > 0 {
		w.oldVersionCtx++
		defer func() { w.oldVersionCtx-- }()
	}
	prevWV := w.curWV
	w.curWV = op.WV
	defer func() { w.curWV = prevWV }()
	switch op.Kind {
	case "reopen":
		w.opReopen(h, op)
	case "close":
		w.opClose(h, op)
	case "flush":
		w.opFlush(h, op)
	case "revert":
		w.opRevert(h, op)
	case "snapshot":
		w.opSnapshot(h, op)
	case "copyto":
		w.opCopyTo(h, op)
	case "setcoll":
		w.opSetColl(h, op)
	case "rmcoll":
		w.opRmColl(h, op)
	case "setcolls":
		w.opSetColls(h, op)
	case "names":
		w.opNames(h, op)
	case "getcoll":
		w.opGetColl(h, op)
	default:
		c := w.collOf(h, op.C)
		if c == nil {
			w.Stats.Skipped++
			return
		}
		switch op.Kind {
		case "set", "setitem":
			w.opSet(h, c, op)
		case "del":
			w.opDel(h, c, op)
		case "get", "getitem", "exist":
			w.opGet(h, c, op)
		case "min", "max":
			w.opMinMax(h, c, op)
		case "totals":
			w.opTotals(h, c, op)
		case "evict":
			w.opEvict(h, c, op)
		case "visit":
			w.opVisit(h, c, op)
		case "iter":
			w.opIter(h, c, op)
		case "len":
			w.opLen(h, c, op)
		case "blockvisit", "randvisit":
			w.opBlockVisit(h, c, op)
		case "write":
			w.opWrite(h, c, op)
		case "misc":
			w.opMisc(h, c, op)
		default:
			w.Stats.Skipped++
		}
	}
}

// collOf returns the current handle of a collection; nil when the model
// does not have it (the real store must agree: checked by names/audit).
func (w *World) collOf(h *StoreH, name string) *gkvlite.Collection {
	if _, ok := h.M.Colls[name]; !ok {
		return nil
	}
	var c *gkvlite.Collection
	w.protect("getcoll", func() { c = h.S.GetCollection(name) })
	if c == nil && w.Viol == nil {
		w.fail("collection-missing", "getcoll", "store s%d: collection %q exists in the model but GetCollection returned nil", h.ID, name)
	}
	return c
}

func (w *World) cmpOfStore(h *StoreH) func(string) int {
	return func(name string) int {
		if c, ok := h.M.Colls[name]; ok {
			return c.Cmp
		}
		return 0
	}
}

func (w *World) universe(h *StoreH, coll string, key []byte) {
	if h.Universe == nil {
		h.Universe = map[string]map[string]bool{}
	}
	u := h.Universe[coll]
	if u == nil {
		u = map[string]bool{}
		h.Universe[coll] = u
	}
	if len(u) < 4096 {
		u[string(key)] = true
	}
}

// expectErr implements the common error rule: an operation in which a
// fault fired must return an error; one in which none fired must not
// (unless the model says the call is invalid: wantErr).
// It returns true when the operation must be treated as failed.
func (w *World) expectErr(kind string, err error, wantErr bool, what string) (failed bool) {
	if w.faultFired() {
		if err == nil {
			if TolerateEvictAbsorb && w.Env.FiredInEvict == w.Env.FiredInOp {
				// known finding (C07, evict-absorbs-fault): every fault of this
				// call fired inside Collection.EvictSomeItems (called by CopyTo),
				// which has no way to report it; the call's result is then
				// checked exactly like that of an unfaulted call
				w.probe("known-fault-absorbed-by-internal-eviction")
				return wantErr
			}
			if w.judges(kind) {
				w.fail("fault-swallowed", kind, "%s: a file fault fired inside the call but it returned no error", what)
			}
			return false
		}
		return true
	}
	if wantErr {
		if err == nil && w.judges(kind) {
			w.fail("error-expected", kind, "%s: expected an error, got nil", what)
		}
		return true
	}
	if err != nil {
		if w.judges(kind) {
			w.fail("unexpected-error", kind, "%s: unexpected error: %v", what, err)
		}
		return true
	}
	return false
}

// ---------------------------------------------------------------------------
// store-level operations

func (w *World) cmpIDsOfTop(d int) map[string]int {
	res := map[string]int{}
	top, _ := w.Files[d].Top()
	for n, c := range top.State.Colls {
		res[n] = c.Cmp
	}
	return res
}

func (w *World) openStore(h *StoreH, kind string) (err error) {
	var s *gkvlite.Store
	disk := h.Disk
	// the comparator of a name is looked up when the store asks for it
	// (at load time, also inside FlushRevert): newest flush that has it
	cb := w.callbacks(h, func(name string) int {
		if disk < 0 {
			return 0
		}
		fl := w.Files[disk].Flushes
		for i := len(fl) - 1; i >= 0; i-- {
			if c, ok := fl[i].State.Colls[name]; ok {
				return c.Cmp
			}
		}
		return 0
	})
	w.protect(kind, func() {
		if h.Disk < 0 {
			s, err = gkvlite.NewStoreEx(nil, cb)
		} else {
			s, err = gkvlite.NewStoreEx(w.Disks[h.Disk], cb)
		}
	})
	h.S = s
	return err
}

// afterOpen installs custom comparators when the callback is not in use.
func (w *World) installComparators(h *StoreH, kind string) {
	for _, name := range h.M.Names() {
		c := h.M.Colls[name]
		id := c.Cmp
		if h.CB&CBKeyCompare != 0 {
			// the load-time callback answered from the newest flush that
			// knows the name; when the name had different comparators over
			// the file's history (SetCollection with a new ordering on an
			// almost empty collection) the application has to say which one
			// it wants for the state just loaded
			if !w.cmpVaried(h, name) {
				continue
			}
		} else if id == CmpBytes {
			continue
		}
		w.protect(kind, func() { h.S.SetCollection(name, w.cmpFunc(id)) })
	}
}

// cmpVaried: the name was flushed under more than one comparator id.
func (w *World) cmpVaried(h *StoreH, name string) bool {
	if h.Disk < 0 {
		return false
	}
	seen := -1
	for _, tl := range w.Files[h.Disk].Timeline {
		for _, fl := range tl.Stack {
			if c, ok := fl.State.Colls[name]; ok {
				if seen >= 0 && c.Cmp != seen {
					return true
				}
				seen = c.Cmp
			}
		}
	}
	if c, ok := h.M.Colls[name]; ok && seen >= 0 && c.Cmp != seen {
		return true
	}
	return false
}

func (w *World) opOpen(op Op) {
	if old := w.store(op.S); old != nil && !old.Closed && old.S != nil {
		w.Stats.Skipped++
		return
	}
	if op.D < 0 && !op.Mem {
		// retry on the file of the (failed or closed) handle with this id
		old := w.store(op.S)
		if old == nil || old.Disk < 0 {
			w.Stats.Skipped++
			return
		}
		op.D = old.Disk
	}
	h := &StoreH{ID: op.S, Disk: op.D, CB: op.CB, Chunk: op.N, Parent: -1}
	if op.Mem {
		h.Disk = -1
	} else {
		d := w.disk(op.D)
		// one writable handle per file
		for _, o := range w.Stores {
			if o != nil && !o.Closed && !o.Snap && o.Disk == op.D && o.S != nil {
				w.Stats.Skipped++
				return
			}
		}
		d.ReadOnly = op.RO
	}
	w.finishOpen(h, "open")
}

func (w *World) finishOpen(h *StoreH, kind string) {
	h.M = MState{Colls: map[string]*MColl{}}
	var wantErr bool
	var img []byte
	if h.Disk >= 0 {
		img = w.Disks[h.Disk].Image()
		top, ok := w.Files[h.Disk].Top()
		if ok {
			h.M = top.State.Clone()
		} else if len(img) > 0 {
			wantErr = true // non-empty file without any root record
		}
	}
	size0 := int64(len(img))
	rec := FindLastRoot(img, size0)
	logFrom := 0
	if h.Disk >= 0 {
		logFrom = len(w.Disks[h.Disk].Log)
		// an adversarial value written without a root record
		// (Collection.Write, failed flush) that became a complete
		// self-consistent root record by coincidence of offsets: no verdict
		if w.forgedRoot(h.Disk) {
			h.Closed = true
			w.setStore(h)
			return
		}
	}
	err := w.openStore(h, kind)
	if w.Viol != nil {
		return
	}
	if wantErr && err == nil && !w.faultFired() {
		// no flush ever completed on a non-empty file: the "no roots" error
		// or an empty store are both acceptable (C03)
		wantErr = false
	}
	if w.expectErr(kind, err, wantErr, fmt.Sprintf("NewStore on disk %d", h.Disk)) {
		h.S = nil
		h.Closed = true
		w.setStore(h)
		return
	}
	if h.S == nil {
		w.fail("nil-store", kind, "NewStore returned nil store and nil error")
		return
	}
	w.setStore(h)
	if h.Disk >= 0 {
		// A new writer on the file does not know about data an earlier
		// handle wrote without a root record (Collection.Write, failed
		// flush) and will append over it: snapshots of earlier handles are
		// not used any more once the file is opened again.
		for _, o := range w.Stores {
			if o != nil && o.Snap && o.Disk == h.Disk {
				o.Stale = true
			}
		}
		h.SizeKnown = true
		h.Size = 0
		if rec != nil {
			h.Size = rec.End
			w.durable[h.Disk] = rec.End
		} else {
			w.durable[h.Disk] = 0
		}
		// model and independent decoder must agree on what the file holds
		if w.CheckDecode {
			w.checkDecoded(h, kind, img, size0)
		}
		if w.CheckReads && w.Viol == nil {
			w.checkOpenReads(h.Disk, logFrom, rec, size0, kind)
			if rec != nil {
				w.indexValueRanges(h.Disk, rec.End)
			}
		}
		w.Files[h.Disk].mark(len(w.Disks[h.Disk].Log))
	}
	w.installComparators(h, kind)
	if w.judges(kind) {
		w.checkNames(h, kind)
	}
}

// checkDecoded: decoder's reading of the durable state equals the model's
// top flushed state.
func (w *World) checkDecoded(h *StoreH, kind string, img []byte, end int64) {
	w.Stats.Decodes++
	top, ok := w.Files[h.Disk].Top()
	cmpOf := func(name string) int {
		if c, ok := top.State.Colls[name]; ok {
			return c.Cmp
		}
		return 0
	}
	dec := Decode(img, end, cmpOf)
	if !ok {
		if dec != nil && w.judges(kind) {
			w.fail("decoder-vs-model", kind, "disk %d: no flush completed per the model but the decoder finds a root record at %d", h.Disk, dec.Rec.Off)
		}
		return
	}
	if dec == nil {
		if len(top.State.Colls) == 0 {
			return // an empty store needs no root record
		}
		if w.judges(kind) {
			w.fail("decoder-vs-model", kind, "disk %d: the model has a completed flush ending at %d but the independent decoder finds no root record in the file", h.Disk, top.End)
		}
		return
	}
	if !w.judges(kind) {
		return
	}
	if dec.Rec.End != top.End && top.End > 0 {
		w.fail("decoder-vs-model", kind, "disk %d: last root record ends at %d, the model's last flush ended at %d", h.Disk, dec.Rec.End, top.End)
		return
	}
	if msg := stateDiff(dec.State(cmpOf), top.State); msg != "" {
		w.fail("decoder-vs-model", kind, "disk %d: independent decoder disagrees with the model's last flushed state: %s", h.Disk, msg)
		return
	}
	if w.CheckStruct {
		if p := dec.Problems(); len(p) > 0 {
			w.fail("layout", kind, "disk %d: file layout violates the v4 format: %s", h.Disk, p[0])
		}
	}
}

func stateDiff(got, want MState) string {
	gn, wn := got.Names(), want.Names()
	if fmt.Sprint(gn) != fmt.Sprint(wn) {
		return fmt.Sprintf("collection names %q, want %q", gn, wn)
	}
	for _, n := range wn {
		if d := itemsDiff(got.Colls[n].Items, want.Colls[n].Items, true, true); d != "" {
			return fmt.Sprintf("collection %q: %s", n, d)
		}
	}
	return ""
}

func (w *World) opReopen(h *StoreH, op Op) {
	if h.Snap || h.Disk < 0 {
		w.Stats.Skipped++
		return
	}
	// Close (N=1) or simply drop the old handle.  With reference counting
	// under test the handle is always closed: a dropped handle legitimately
	// keeps its references.
	if op.N == 1 || w.CheckLedger {
		w.protect("close", func() { h.S.Close() })
	}
	h.Closed = true
	// snapshots of the dropped handle are not used any more
	w.staleSnapshotsOf(h.ID)
	nh := &StoreH{ID: h.ID, Disk: h.Disk, CB: op.CB, Chunk: h.Chunk, Parent: -1, Universe: h.Universe}
	if op.CB < 0 {
		nh.CB = h.CB
	}
	w.Disks[h.Disk].ReadOnly = op.RO
	w.finishOpen(nh, "reopen")
}

func (w *World) staleSnapshotsOf(id int) {
	for _, o := range w.Stores {
		if o != nil && o.Snap && o.Parent == id && !o.Closed {
			o.Stale = true
			w.staleSnapshotsOf(o.ID)
		}
	}
}

func (w *World) opClose(h *StoreH, op Op) {
	w.protect("close", func() { h.S.Close() })
	h.Closed = true
}

func (w *World) lastWriteEnd(d int, from int) (int64, bool) {
	log := w.Disks[d].Log
	for i := len(log) - 1; i >= from; i-- {
		if log[i].Kind == 'W' && !log[i].Err {
			return log[i].Off + int64(log[i].Len), true
		}
	}
	return 0, false
}

func (w *World) opFlush(h *StoreH, op Op) {
	kind := "flush"
	var err error
	from := 0
	if h.Disk >= 0 {
		from = len(w.Disks[h.Disk].Log)
	}
	w.protect(kind, func() { err = h.S.Flush() })
	if w.Viol != nil {
		return
	}
	wantErr := h.Snap || h.Disk < 0 || (h.Disk >= 0 && w.Disks[h.Disk].ReadOnly)
	if w.expectErr(kind, err, wantErr, fmt.Sprintf("Flush on s%d", h.ID)) {
		if h.Disk >= 0 && !h.Snap {
			h.SizeKnown = false
		}
		return
	}
	w.Stats.Flushes++
	d := h.Disk
	end, ok := w.lastWriteEnd(d, from)
	if !ok {
		// Flush wrote nothing.  That is fine when nothing changed since the
		// last flush; whether the file really holds the current state is
		// decided below (decoder) and at the next re-open, not assumed.
		w.probe("flush-wrote-nothing")
		if top, has := w.Files[d].Top(); has {
			end = top.End
		} else {
			end = 0
		}
	}
	w.Files[d].Flushes = append(w.Files[d].Flushes, MFlush{State: h.M.Clone(), End: end, LogSeq: len(w.Disks[d].Log)})
	w.Files[d].mark(len(w.Disks[d].Log))
	h.SizeKnown = true
	h.Size = end
	w.durable[d] = end
	if w.forgedRoot(d) {
		return
	}
	if w.CheckDecode {
		w.checkDecoded(h, kind, w.Disks[d].Image(), end)
	}
	if w.CheckReads {
		w.indexValueRanges(d, end)
	}
}

// forgedRoot: adversarial values may, by coincidence of offsets, land so
// that an embedded copy of a real root record becomes a complete,
// self-consistent root record.  The properties (and the README) exclude
// exactly that case, so such a run ends without a verdict.
func (w *World) forgedRoot(d int) bool {
	if !w.AdvValues {
		return false
	}
	known := map[int64]bool{}
	for _, tl := range w.Files[d].Timeline {
		for _, fl := range tl.Stack {
			known[fl.End] = true
		}
	}
	for _, fl := range w.Files[d].Flushes {
		known[fl.End] = true
	}
	for _, r := range AllRoots(w.Disks[d].Image()) {
		if !known[r.End] && !writtenAsOneRecord(w.Disks[d], r) {
			w.Aborted = true
			w.probe("run-aborted-self-consistent-forged-root-by-coincidence")
			return true
		}
	}
	return false
}

func (w *World) opRevert(h *StoreH, op Op) {
	kind := "revert"
	if h.Disk < 0 {
		var err error
		w.protect(kind, func() { err = h.S.FlushRevert() })
		if w.Viol == nil && err == nil && w.judges(kind) {
			w.fail("error-expected", kind, "FlushRevert on a memory-only store returned nil")
		}
		return
	}
	f := w.Files[h.Disk]
	if !h.SizeKnown || f.Opaque {
		w.Stats.Skipped++
		return
	}
	// target: newest flush whose root record ends at or below size-1
	target := -1
	for i := len(f.Flushes) - 1; i >= 0; i-- {
		if f.Flushes[i].End <= h.Size-1 {
			target = i
			break
		}
	}
	var err error
	w.protect(kind, func() { err = h.S.FlushRevert() })
	if w.Viol != nil {
		return
	}
	if w.expectErr(kind, err, false, fmt.Sprintf("FlushRevert on s%d", h.ID)) {
		// the handle must be re-opened; the file still holds its flushes
		h.Stale = true
		h.Closed = h.Snap
		if !h.Snap {
			h.MustReopen()
		}
		return
	}
	var st MState
	var end int64
	if target >= 0 {
		st = f.Flushes[target].State.Clone()
		end = f.Flushes[target].End
	} else {
		st = MState{Colls: map[string]*MColl{}}
	}
	h.M = st
	h.Size = end
	if !h.Snap {
		// README: snapshots created before a FlushRevert of the main
		// store must not be used any more (the file was truncated)
		for _, o := range w.Stores {
			if o != nil && o.Snap && o.Disk == h.Disk {
				o.Stale = true
			}
		}
		f.Flushes = f.Flushes[:target+1]
		f.mark(len(w.Disks[h.Disk].Log))
		w.durable[h.Disk] = end
		if w.judges(kind) {
			if got := w.Disks[h.Disk].Size(); got != end && !w.Disks[h.Disk].ReadOnly {
				w.fail("revert-length", kind, "after FlushRevert the file is %d bytes long, want %d (end of the flush reverted to)", got, end)
				return
			}
		}
		if w.CheckDecode {
			w.checkDecoded(h, kind, w.Disks[h.Disk].Image(), w.Disks[h.Disk].Size())
		}
	}
	w.clearFaults()
	w.installComparators(h, kind)
	if w.judges(kind) {
		w.checkNames(h, kind)
		w.auditStore(h, kind)
	}
}

// MustReopen marks a writable handle whose FlushRevert failed.
func (h *StoreH) MustReopen() { h.Stale = false; h.Closed = false; h.SizeKnown = false; h.needReopen = true }

func (w *World) opSnapshot(h *StoreH, op Op) {
	kind := "snapshot"
	if old := w.store(op.N); old != nil || op.N == h.ID {
		w.Stats.Skipped++
		return
	}
	var s *gkvlite.Store
	w.protect(kind, func() { s = h.S.Snapshot() })
	if w.Viol != nil {
		return
	}
	if s == nil {
		w.fail("nil-store", kind, "Snapshot returned nil")
		return
	}
	origin := h.ID
	if h.Snap {
		origin = h.Origin
	}
	nh := &StoreH{ID: op.N, S: s, Disk: h.Disk, Snap: true, Parent: h.ID, Origin: origin, M: h.M.Clone(), CB: h.CB, Chunk: h.Chunk,
		SizeKnown: h.SizeKnown, Size: h.Size}
	w.setStore(nh)
}

func (w *World) opSetColl(h *StoreH, op Op) {
	kind := "setcoll"
	if h.Snap {
		w.Stats.Skipped++
		return
	}
	cmp := op.Cmp
	old, exists := h.M.Colls[op.C]
	if exists && len(old.Items) > 1 {
		// a different ordering is only meaningful while the existing items
		// are trivially ordered under both comparators (<= 1 item)
		cmp = old.Cmp
	}
	if exists && cmp != old.Cmp {
		w.probe("setcoll-existing-new-comparator")
	}
	var c *gkvlite.Collection
	cmpf := w.cmpFunc(cmp)
	if cmp == CmpBytes && op.N2 == 1 {
		cmpf = nil // the documented way to ask for the default bytes.Compare
		w.probe("setcoll-nil-comparator")
	}
	w.protect(kind, func() { c = h.S.SetCollection(op.C, cmpf) })
	if w.Viol != nil {
		return
	}
	if c == nil {
		w.fail("nil-collection", kind, "SetCollection(%q) returned nil", op.C)
		return
	}
	if exists {
		w.probe("setcoll-existing")
		h.M.Colls[op.C] = old.WithCmp(cmp)
	} else {
		h.M.Colls[op.C] = &MColl{Cmp: cmp}
	}
	if w.judges(kind) {
		if w.observeNow() {
			w.checkNames(h, kind)
		}
		if c.Name() != op.C {
			w.fail("collection-name", kind, "SetCollection(%q) returned a collection named %q", op.C, c.Name())
		}
		w.auditColl(h, op.C, kind)
	}
}

// BulkCollName is the name of the i-th collection of a "setcolls" op.
func BulkCollName(i, nameLen int) string {
	return fmt.Sprintf("bulk-%05d-", i) + strings.Repeat("n", nameLen)
}

// opSetColls creates op.N collections with op.N2-byte name padding: root
// records around and beyond 64 KiB (a size no item or node record has).
func (w *World) opSetColls(h *StoreH, op Op) {
	kind := "setcolls"
	if h.Snap || op.N <= 0 || op.N > 4000 {
		w.Stats.Skipped++
		return
	}
	w.protect(kind, func() {
		for i := 0; i < op.N; i++ {
			h.S.SetCollection(BulkCollName(i, op.N2), nil)
		}
	})
	if w.Viol != nil {
		return
	}
	for i := 0; i < op.N; i++ {
		name := BulkCollName(i, op.N2)
		if old, ok := h.M.Colls[name]; ok {
			h.M.Colls[name] = old.WithCmp(CmpBytes)
		} else {
			h.M.Colls[name] = &MColl{Cmp: CmpBytes}
		}
	}
	w.probe("bulk-collections-created")
	if w.judges("setcoll") {
		w.checkNames(h, kind)
	}
}

func (w *World) opRmColl(h *StoreH, op Op) {
	kind := "rmcoll"
	if h.Snap {
		w.Stats.Skipped++
		return
	}
	w.protect(kind, func() { h.S.RemoveCollection(op.C) })
	if w.Viol != nil {
		return
	}
	if _, ok := h.M.Colls[op.C]; ok {
		w.probe("rmcoll-present")
	}
	delete(h.M.Colls, op.C)
	if w.judges(kind) && w.observeNow() {
		w.checkNames(h, kind)
	}
}

// observeNow decides, as a pure function of the position in the trace,
// whether an optional observation is made after this operation.  Asking
// after every single operation would hide state that only goes stale
// between two observations (a cached answer, for instance).
func (w *World) observeNow() bool {
	x := uint64(w.OpIdx+1)*0x9e3779b97f4a7c15 + uint64(w.sub)*0xbf58476d1ce4e5b9
	x ^= x >> 29
	return x%3 == 0
}

func (w *World) checkNames(h *StoreH, kind string) {
	var got []string
	w.protect(kind, func() { got = h.S.GetCollectionNames() })
	if w.Viol != nil {
		return
	}
	want := h.M.Names()
	if !sort.StringsAreSorted(got) {
		w.fail("names-unsorted", kind, "GetCollectionNames on s%d not sorted: %q", h.ID, got)
		return
	}
	if fmt.Sprintf("%q", got) != fmt.Sprintf("%q", want) {
		w.fail("names", kind, "GetCollectionNames on s%d = %q, want %q", h.ID, got, want)
	}
}

func (w *World) opNames(h *StoreH, op Op) {
	if w.judges("names") {
		w.checkNames(h, "names")
	}
}

func (w *World) opGetColl(h *StoreH, op Op) {
	var c *gkvlite.Collection
	w.protect("getcoll", func() { c = h.S.GetCollection(op.C) })
	if w.Viol != nil || !w.judges("getcoll") {
		return
	}
	_, want := h.M.Colls[op.C]
	if (c != nil) != want {
		w.fail("getcoll", "getcoll", "GetCollection(%q) on s%d: present=%v, want %v", op.C, h.ID, c != nil, want)
	}
	if c != nil && c.Name() != op.C && !h.Snap {
		w.fail("collection-name", "getcoll", "GetCollection(%q) returned a collection named %q", op.C, c.Name())
	}
}

// ---------------------------------------------------------------------------
// item operations

func validItem(key []byte, val []byte, prio int32) bool {
	return key != nil && len(key) > 0 && len(key) <= 0xffff && val != nil && prio >= 0
}

func (w *World) opSet(h *StoreH, c *gkvlite.Collection, op Op) {
	kind := op.Kind
	key := op.key()
	val := op.Val.Bytes()
	var err error
	var it *gkvlite.Item
	prio := op.Prio
	if kind == "set" {
		prio = PrioUnknown
		if op.Var == "any" && key != nil {
			// the same call through the interface{} front end
			w.protect(kind, func() { err = c.SetAny(string(key), val) })
		} else {
			w.protect(kind, func() { err = c.Set(key, val) })
		}
	} else {
		it = &gkvlite.Item{Key: key, Val: val, Priority: op.Prio}
		if h.CB&CBRef != 0 {
			w.Ledger.New(it)
			w.Ledger.Harness[it]++
		}
		w.protect(kind, func() { err = c.SetItem(it) })
	}
	if w.Viol != nil {
		return
	}
	valid := validItem(key, val, 0) && (kind == "set" || op.Prio >= 0)
	wantErr := !valid || h.Snap
	if !valid {
		w.probe("rejected-input")
	}
	if w.expectErr(kind, err, wantErr, fmt.Sprintf("%s(%s) on s%d/%q", kind, showBytes(key), h.ID, op.C)) {
		return
	}
	if err != nil {
		return
	}
	mc := h.M.Colls[op.C]
	if old, ok := mc.Get(key); ok {
		w.probe("overwrite")
		if prio != PrioUnknown && old.P != PrioUnknown && prio < old.P {
			w.probe("overwrite-lower-priority")
		}
	}
	h.M.Colls[op.C] = mc.Set(MItem{K: key, V: val, P: prio})
	w.universe(h, op.C, key)
}

func (w *World) opDel(h *StoreH, c *gkvlite.Collection, op Op) {
	kind := "del"
	key := op.key()
	var err error
	var was bool
	if op.Var == "any" && key != nil {
		w.protect(kind, func() { was, err = c.DeleteAny(string(key)) })
	} else {
		w.protect(kind, func() { was, err = c.Delete(key) })
	}
	if w.Viol != nil {
		return
	}
	if w.expectErr(kind, err, h.Snap, fmt.Sprintf("Delete(%s) on s%d/%q", showBytes(key), h.ID, op.C)) {
		if was && w.judges(kind) && w.Viol == nil {
			w.fail("delete-result", kind, "Delete returned wasDeleted=true together with an error")
		}
		return
	}
	if err != nil {
		return
	}
	mc := h.M.Colls[op.C]
	nmc, want := mc.Delete(key)
	if want {
		w.probe("delete-present")
	}
	if was != want && w.judges(kind) {
		w.fail("delete-result", kind, "Delete(%s) on s%d/%q returned %v, want %v", showBytes(key), h.ID, op.C, was, want)
		return
	}
	h.M.Colls[op.C] = nmc
	w.universe(h, op.C, key)
}

func (w *World) hold(h *StoreH, it *gkvlite.Item) {
	if it != nil && h.CB&CBRef != 0 {
		// the caller owns one reference on a returned item
		if w.CheckLedger && w.Ledger.Count[it] <= 0 && w.Viol == nil {
			w.fail("refcount-returned", w.Env.CurKind, "item %s handed to the caller has reference count %d", showBytes(it.Key), w.Ledger.Count[it])
		}
		w.Ledger.Harness[it]++
	}
}

func (w *World) opGet(h *StoreH, c *gkvlite.Collection, op Op) {
	kind := op.Kind
	key := op.key()
	mc := h.M.Colls[op.C]
	want, present := mc.Get(key)
	what := fmt.Sprintf("%s(%s) on s%d/%q", kind, showBytes(key), h.ID, op.C)
	switch kind {
	case "get":
		var v []byte
		var err error
		w.Ledger.LastAddRef = nil
		if op.Var == "any" && key != nil {
			w.protect(kind, func() { v, err = c.GetAny(string(key)) })
		} else {
			w.protect(kind, func() { v, err = c.Get(key) })
		}
		if CompensateGetLeak && h.CB&CBRef != 0 && err == nil && v != nil && w.Ledger.LastAddRef != nil {
			// known finding (C15): Get keeps the reference GetItem took and
			// gives the caller no handle to release it; the harness adopts
			// that reference so that every other imbalance is still exact
			w.Ledger.Harness[w.Ledger.LastAddRef]++
			w.probe("known-get-reference-adopted")
		}
		if w.Viol != nil || w.expectErr(kind, err, false, what) || !w.judges(kind) {
			return
		}
		if !present {
			if v != nil {
				w.fail("lookup", kind, "%s returned %s for an absent key", what, showBytes(v))
			}
			return
		}
		if v == nil {
			w.fail("lookup", kind, "%s returned nil, want %s", what, showBytes(want.V))
		} else if !bytes.Equal(v, want.V) {
			w.fail("lookup", kind, "%s returned %s, want %s", what, showBytes(v), showBytes(want.V))
		}
	case "getitem":
		var it *gkvlite.Item
		var err error
		w.protect(kind, func() { it, err = c.GetItem(key, op.WV) })
		if w.Viol != nil {
			return
		}
		w.hold(h, it)
		if w.expectErr(kind, err, false, what) || !w.judges(kind) {
			return
		}
		w.checkItem(kind, what, it, want, present, op.WV)
	case "exist":
		var ok bool
		if op.Var == "any" && key != nil {
			w.protect(kind, func() { ok = c.ExistAny(string(key)) })
		} else {
			w.protect(kind, func() { ok = c.Exist(key) })
		}
		if w.Viol != nil || !w.judges(kind) {
			return
		}
		if w.faultFired() {
			// Exist has no error result.  A wrong answer under a fault is
			// wrong data reported as success.
			if ok != present {
				w.fail("exist-under-fault", kind, "%s returned %v for a key whose presence is %v while a read fault fired (no way to report the error)", what, ok, present)
			}
			return
		}
		if ok != present {
			w.fail("lookup", kind, "%s returned %v, want %v", what, ok, present)
		}
	}
}

func (w *World) checkItem(kind, what string, it *gkvlite.Item, want MItem, present bool, withValue bool) {
	if !present {
		if it != nil {
			w.fail("lookup", kind, "%s returned an item (key %s) for an absent key", what, showBytes(it.Key))
		}
		return
	}
	if it == nil {
		w.fail("lookup", kind, "%s returned nil, want key %s", what, showBytes(want.K))
		return
	}
	if !bytes.Equal(it.Key, want.K) {
		w.fail("lookup", kind, "%s returned key %s, want %s", what, showBytes(it.Key), showBytes(want.K))
		return
	}
	if want.P != PrioUnknown && it.Priority != want.P {
		w.fail("lookup", kind, "%s returned priority %d, want %d", what, it.Priority, want.P)
		return
	}
	if withValue {
		if it.Val == nil || !bytes.Equal(it.Val, want.V) {
			w.fail("lookup", kind, "%s returned value %s, want %s", what, showBytes(it.Val), showBytes(want.V))
		}
	} else if it.Val != nil && !bytes.Equal(it.Val, want.V) {
		w.fail("lookup", kind, "%s (withValue=false) carries a wrong value %s, want absent or %s", what, showBytes(it.Val), showBytes(want.V))
	}
}

func (w *World) opMinMax(h *StoreH, c *gkvlite.Collection, op Op) {
	kind := op.Kind
	mc := h.M.Colls[op.C]
	var it *gkvlite.Item
	var err error
	w.protect(kind, func() {
		if kind == "min" {
			it, err = c.MinItem(op.WV)
		} else {
			it, err = c.MaxItem(op.WV)
		}
	})
	if w.Viol != nil {
		return
	}
	w.hold(h, it)
	what := fmt.Sprintf("%s on s%d/%q", kind, h.ID, op.C)
	if w.expectErr(kind, err, false, what) || !w.judges(kind) {
		return
	}
	if len(mc.Items) == 0 {
		w.checkItem(kind, what, it, MItem{}, false, op.WV)
		return
	}
	want := mc.Items[0]
	if kind == "max" {
		want = mc.Items[len(mc.Items)-1]
	}
	w.checkItem(kind, what, it, want, true, op.WV)
}

func (w *World) opTotals(h *StoreH, c *gkvlite.Collection, op Op) {
	kind := "totals"
	var n, b uint64
	var err error
	w.protect(kind, func() { n, b, err = c.GetTotals() })
	if w.Viol != nil {
		return
	}
	what := fmt.Sprintf("GetTotals on s%d/%q", h.ID, op.C)
	if w.expectErr(kind, err, false, what) || !w.judges(kind) {
		return
	}
	wn, wb := h.M.Colls[op.C].Totals()
	if n != wn || b != wb {
		w.fail("totals", kind, "%s = (%d items, %d bytes), want (%d, %d)", what, n, b, wn, wb)
	}
}

func (w *World) opEvict(h *StoreH, c *gkvlite.Collection, op Op) {
	n := op.N
	if n <= 0 {
		n = 1
	}
	total := uint64(0)
	for i := 0; i < n && w.Viol == nil; i++ {
		w.protect("evict", func() { total += c.EvictSomeItems() })
	}
	if total > 0 {
		w.probe("evicted-something")
	}
}

func (w *World) opWrite(h *StoreH, c *gkvlite.Collection, op Op) {
	kind := "write"
	var err error
	w.protect(kind, func() { err = c.Write() })
	if w.Viol != nil {
		return
	}
	wantErr := h.Snap || (h.Disk >= 0 && w.Disks[h.Disk].ReadOnly)
	if h.Disk < 0 {
		// memory-only store: nothing sensible is promised; not judged
		return
	}
	w.expectErr(kind, err, wantErr, fmt.Sprintf("Collection.Write on s%d/%q", h.ID, op.C))
	if !h.Snap {
		h.SizeKnown = false
	}
}

// ---------------------------------------------------------------------------
// visits

type visitRec struct {
	K, V  []byte
	P     int32
	Depth uint64
}

func (w *World) runNested(op Op, at int) {
	for _, n := range op.Nested {
		if n.At == at && w.depth < 4 {
			w.depth++
			w.exec1(n.Op)
			w.depth--
		}
	}
}

func (w *World) opVisit(h *StoreH, c *gkvlite.Collection, op Op) {
	kind := "visit"
	mc := h.M.Colls[op.C] // the version current at the start of the visit
	target := op.key()
	var got []visitRec
	var err error
	calls := 0
	stopped := false
	callsAfterStop := 0
	visitor := func(i *gkvlite.Item, depth uint64) bool {
		w.yield("visitor")
		if stopped {
			callsAfterStop++
			return false
		}
		calls++
		if i == nil {
			got = append(got, visitRec{})
		} else {
			if w.CheckLedger && h.CB&CBRef != 0 && w.Ledger.Count[i] <= 0 && w.Viol == nil {
				w.fail("refcount-visited", kind, "item %s handed to a visitor has reference count %d", showBytes(i.Key), w.Ledger.Count[i])
			}
			got = append(got, visitRec{K: cloneBytes(i.Key), V: cloneBytes(i.Val), P: i.Priority, Depth: depth})
		}
		if len(op.Nested) > 0 {
			w.runNested(op, calls)
		}
		if op.Stop > 0 && calls >= op.Stop {
			stopped = true
			return false
		}
		return w.Viol == nil
	}
	hasDepth := false
	w.protect(kind, func() {
		switch op.Var {
		case "ex":
			hasDepth = true
			if op.Desc {
				err = c.VisitItemsDescendEx(target, op.WV, visitor)
			} else {
				err = c.VisitItemsAscendEx(target, op.WV, visitor)
			}
		default:
			v := func(i *gkvlite.Item) bool { return visitor(i, 0) }
			if op.Desc {
				err = c.VisitItemsDescend(target, op.WV, v)
			} else {
				err = c.VisitItemsAscend(target, op.WV, v)
			}
		}
	})
	if w.Viol != nil {
		return
	}
	what := fmt.Sprintf("visit(%s desc=%v wv=%v var=%s stop=%d) on s%d/%q", showBytes(target), op.Desc, op.WV, op.Var, op.Stop, h.ID, op.C)
	if w.expectErr(kind, err, false, what) || !w.judges(kind) {
		return
	}
	w.checkVisit(kind, what, mc, target, op, got, hasDepth, callsAfterStop)
}

func (w *World) expectedRange(mc *MColl, target []byte, desc bool, stop int) []MItem {
	var want []MItem
	if desc {
		want = mc.Descend(target)
	} else {
		want = mc.Ascend(target)
	}
	if stop > 0 && len(want) > stop {
		want = want[:stop]
	}
	return want
}

func (w *World) checkVisit(kind, what string, mc *MColl, target []byte, op Op, got []visitRec, hasDepth bool, callsAfterStop int) {
	want := w.expectedRange(mc, target, op.Desc, op.Stop)
	if callsAfterStop > 0 {
		w.fail("visit-after-stop", kind, "%s: visitor called %d more time(s) after it returned false", what, callsAfterStop)
		return
	}
	gi := make([]MItem, len(got))
	for i, g := range got {
		gi[i] = MItem{K: g.K, V: g.V, P: g.P}
		if g.K == nil {
			w.fail("visit-nil-item", kind, "%s: visitor received a nil item/key at position %d", what, i)
			return
		}
	}
	if d := itemsDiff(gi, want, false, true); d != "" {
		w.fail("visit-sequence", kind, "%s: %s", what, d)
		return
	}
	for i := range got {
		if op.WV {
			if got[i].V == nil || !bytes.Equal(got[i].V, want[i].V) {
				w.fail("visit-value", kind, "%s: position %d key %s: value %s, want %s", what, i, showBytes(got[i].K), showBytes(got[i].V), showBytes(want[i].V))
				return
			}
		} else if got[i].V != nil && !bytes.Equal(got[i].V, want[i].V) {
			w.fail("visit-value", kind, "%s: position %d key %s: withValue=false but a wrong value %s is attached", what, i, showBytes(got[i].K), showBytes(got[i].V))
			return
		}
	}
	if len(want) < len(mc.Items) || op.Stop > 0 {
		w.probe("visit-partial")
	}
	if hasDepth {
		w.checkDepths(kind, what, mc, got)
	}
}

// checkDepths: with distinct, known priorities that were never lowered
// the depth of each item is canonical; otherwise depths must at least
// describe some binary tree over the collection (checked on full visits
// by the tree oracle elsewhere).
func (w *World) checkDepths(kind, what string, mc *MColl, got []visitRec) {
	if mc.Lowered {
		return
	}
	depths, ok := mc.CanonicalDepths()
	if !ok {
		return
	}
	w.probe("canonical-depth-checked")
	for _, g := range got {
		i, found := mc.find(g.K)
		if !found {
			continue
		}
		if uint64(depths[i]) != g.Depth {
			w.fail("depth", kind, "%s: key %s reported at depth %d, its depth in the unique treap over the current keys/priorities is %d", what, showBytes(g.K), g.Depth, depths[i])
			return
		}
	}
}

func (w *World) opIter(h *StoreH, c *gkvlite.Collection, op Op) {
	kind := "iter"
	mc := h.M.Colls[op.C]
	target := op.key()
	want := w.expectedRange(mc, target, op.Desc, 0)
	what := fmt.Sprintf("iterator(%s desc=%v wv=%v script=%s) on s%d/%q", showBytes(target), op.Desc, op.WV, op.Script, h.ID, op.C)
	var it gkvlite.ItemIterator
	w.protect(kind, func() {
		if op.Desc {
			it = c.IterateDescend(target, op.WV)
		} else {
			it = c.IterateAscend(target, op.WV)
		}
	})
	if w.Viol != nil {
		return
	}
	pos := 0
	done := false // closed or exhausted
	script := op.Script
	if script == "" {
		script = "c"
	}
	nexts := 0
	for si := 0; si < len(script) && w.Viol == nil; si++ {
		switch script[si] {
		case 'n':
			var ok bool
			w.protect(kind, func() { ok = it.Next() })
			if w.Viol != nil {
				return
			}
			nexts++
			if w.faultFired() {
				if !ok {
					done = true
				}
				continue
			}
			if done {
				if ok && w.judges(kind) {
					w.fail("iter-after-end", kind, "%s: Next() returned true after Close()/exhaustion (call %d)", what, nexts)
					return
				}
				continue
			}
			if pos < len(want) {
				if !ok {
					if w.judges(kind) {
						w.fail("iter-sequence", kind, "%s: Next() returned false after %d items, want %d (Err=%v)", what, pos, len(want), it.Err())
					}
					return
				}
				r := it.Result()
				if w.judges(kind) {
					if r == nil {
						w.fail("iter-sequence", kind, "%s: Result() nil at position %d", what, pos)
						return
					}
					wi := want[pos]
					if !bytes.Equal(r.Key, wi.K) || (wi.P != PrioUnknown && r.Priority != wi.P) ||
						(op.WV && (r.Val == nil || !bytes.Equal(r.Val, wi.V))) || (!op.WV && r.Val != nil && !bytes.Equal(r.Val, wi.V)) {
						w.fail("iter-sequence", kind, "%s: position %d: got (%s,%s,%d) want (%s,%s,%d)", what, pos, showBytes(r.Key), showBytes(r.Val), r.Priority, showBytes(wi.K), showBytes(wi.V), wi.P)
						return
					}
				}
				pos++
				w.runNested(op, nexts)
			} else {
				if ok && w.judges(kind) {
					w.fail("iter-sequence", kind, "%s: Next() returned true past the end (position %d)", what, pos)
					return
				}
				done = true
			}
		case 'c':
			w.protect(kind, func() { it.Close() })
			done = true
		}
	}
	// never leave an iterator open: the property promises nothing for
	// abandoned, unclosed iterators
	w.protect(kind, func() { it.Close() })
	w.quiesce()
	if w.Viol != nil {
		return
	}
	if w.faultFired() {
		if it.Err() == nil && w.judges(kind) {
			w.fail("fault-swallowed", kind, "%s: a file fault fired inside the iterator but Err() is nil", what)
		}
		return
	}
	if err := it.Err(); err != nil && w.judges(kind) {
		w.fail("unexpected-error", kind, "%s: Err() = %v", what, err)
	}
}

// quiesce waits until gkvlite's own goroutines (iterator producers) have
// blocked or exited; installed by the engine (synctest.Wait).
var Quiesce func()

func (w *World) quiesce() {
	if Quiesce != nil {
		Quiesce()
	}
}

func (w *World) opLen(h *StoreH, c *gkvlite.Collection, op Op) {
	kind := "len"
	var n int64
	var err error
	w.protect(kind, func() { n, err = c.Len() })
	if w.Viol != nil {
		return
	}
	what := fmt.Sprintf("Len on s%d/%q", h.ID, op.C)
	if w.expectErr(kind, err, false, what) || !w.judges(kind) {
		return
	}
	if want := int64(len(h.M.Colls[op.C].Items)); n != want {
		w.fail("len", kind, "%s = %d, want %d", what, n, want)
	}
}

// block manglers (C16)
func blockMangler(id int, seed uint64) gkvlite.BlockMangler {
	switch id {
	case 1:
		return func(b [][]byte) [][]byte { return b }
	case 2:
		return func(b [][]byte) [][]byte {
			for i, j := 0, len(b)-1; i < j; i, j = i+1, j-1 {
				b[i], b[j] = b[j], b[i]
			}
			return b
		}
	case 3:
		return func(b [][]byte) [][]byte {
			if len(b) < 2 {
				return b
			}
			k := int(seed % uint64(len(b)))
			return append(append([][]byte{}, b[k:]...), b[:k]...)
		}
	case 4:
		return func(b [][]byte) [][]byte {
			r := NewRng(seed)
			p := r.Perm(len(b))
			res := make([][]byte, len(b))
			for i, j := range p {
				res[i] = b[j]
			}
			return res
		}
	}
	return nil
}

func (w *World) opBlockVisit(h *StoreH, c *gkvlite.Collection, op Op) {
	kind := op.Kind
	mc := h.M.Colls[op.C]
	seen := map[string]int{}
	calls := 0
	var wrongVal string
	visitor := func(i *gkvlite.Item, depth uint64) bool {
		w.yield("visitor")
		calls++
		if i != nil {
			seen[string(i.Key)]++
			if (op.WV || kind == "randvisit") && wrongVal == "" {
				if m, ok := mc.Get(i.Key); ok && (i.Val == nil || !bytes.Equal(i.Val, m.V)) {
					wrongVal = fmt.Sprintf("key %s: value %s, want %s", showBytes(i.Key), showBytes(i.Val), showBytes(m.V))
				}
			}
		}
		return true
	}
	var err error
	w.protect(kind, func() {
		if kind == "randvisit" {
			err = c.VisitItemsRandom(visitor)
		} else {
			err = c.VisitItemsAscendBlockEx(op.WV, blockMangler(op.N, uint64(op.N2)), visitor)
		}
	})
	if w.Viol != nil {
		return
	}
	what := fmt.Sprintf("%s(mangler=%d) on s%d/%q with %d items", kind, op.N, h.ID, op.C, len(mc.Items))
	if w.faultFired() {
		w.expectErr(kind, err, false, what)
		return
	}
	if !w.judges(kind) {
		return
	}
	if len(mc.Items) == 0 {
		// the error value for "no blocks" is not judged; the visitor must not run
		if calls != 0 {
			w.fail("enumeration", kind, "%s: visitor called %d times on an empty collection", what, calls)
		}
		return
	}
	if err != nil {
		w.fail("unexpected-error", kind, "%s: unexpected error: %v", what, err)
		return
	}
	for _, m := range mc.Items {
		if n := seen[string(m.K)]; n != 1 {
			w.fail("enumeration", kind, "%s: key %s presented %d times, want exactly once (visitor calls: %d)", what, showBytes(m.K), n, calls)
			return
		}
	}
	if len(seen) != len(mc.Items) {
		w.fail("enumeration", kind, "%s: %d distinct keys presented, collection has %d", what, len(seen), len(mc.Items))
		return
	}
	if wrongVal != "" {
		w.fail("enumeration-value", kind, "%s: %s", what, wrongVal)
	}
}

// checkDurableIntact: the independent decoder still reads the model's last
// flushed state from the file (after a failed call).
func (w *World) checkDurableIntact(di int, kind string) {
	f := w.Files[di]
	top, ok := f.Top()
	if !ok || f.Opaque {
		return
	}
	img := w.Disks[di].Image()
	cmpOf := func(name string) int {
		if c, ok := top.State.Colls[name]; ok {
			return c.Cmp
		}
		return 0
	}
	dec := Decode(img, int64(len(img)), cmpOf)
	if dec == nil {
		w.fail("durable-state-damaged", kind, "disk %d: after the failed call the decoder finds no root record any more (last flush ended at %d)", di, top.End)
		return
	}
	if dec.Rec.End != top.End {
		w.fail("durable-state-damaged", kind, "disk %d: after the failed call the last root record ends at %d, the last successful flush ended at %d", di, dec.Rec.End, top.End)
		return
	}
	if d := stateDiff(dec.State(cmpOf), top.State); d != "" {
		w.fail("durable-state-damaged", kind, "disk %d: after the failed call the file no longer holds the last flushed state: %s", di, d)
	}
}

// opMisc: read-only entry points without a result worth modelling; they
// must not panic, write, keep a version pinned or change anything (the
// monitors and the next audit decide).
func (w *World) opMisc(h *StoreH, c *gkvlite.Collection, op Op) {
	kind := "misc"
	switch op.N % 4 {
	case 0:
		out := map[string]uint64{}
		w.protect(kind, func() { h.S.Stats(out) })
		if w.Viol == nil && w.judges(kind) && h.SizeKnown && h.Disk >= 0 && !h.Snap {
			if got, ok := out["fileSize"]; ok && int64(got) < h.Size {
				w.fail("stats", kind, "Stats on s%d reports fileSize=%d, below the end of the last root record written or loaded (%d)", h.ID, got, h.Size)
			}
		}
	case 1:
		var b []byte
		var err error
		w.protect(kind, func() { b, err = c.MarshalJSON() })
		if w.Viol == nil && w.judges(kind) {
			if err != nil {
				w.fail("marshal", kind, "Collection.MarshalJSON on s%d/%q: %v", h.ID, op.C, err)
			} else if loc := (DLoc{}); json.Unmarshal(b, &loc) != nil {
				w.fail("marshal", kind, "Collection.MarshalJSON on s%d/%q returned %q, not a root location", h.ID, op.C, b)
			}
		}
	case 2:
		w.protect(kind, func() { _ = c.AllocStats() })
	case 3:
		var n string
		w.protect(kind, func() { n = c.Name() })
		if w.Viol == nil && w.judges(kind) && n != op.C && !h.Snap {
			w.fail("collection-name", kind, "Name() of collection %q on s%d = %q", op.C, h.ID, n)
		}
	}
}
