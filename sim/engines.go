package sim

import (
	"encoding/json"
	"os"
	"path/filepath"
	"sort"
)

// EngineFor returns the function that executes a plan for a property.
func EngineFor(prop string) func(*Plan) *RunResult {
	switch prop {
	case "C05", "C18", "C15", "C19":
		return func(plan *Plan) *RunResult {
			if plan.Con != nil || (len(plan.Ops) == 0 && (prop == "C05" || (prop == "C18" && plan.Seed%2 == 0) || ((prop == "C15" || prop == "C19") && plan.Seed%4 == 0))) {
				r := RunConProp(plan, prop)
				r.Hash = Mix(r.Sig, uint64(r.Stats.Steps), uint64(r.Stats.Compares))
				if r.Viol != nil {
					r.Hash = Mix(r.Hash, MixStr(r.Viol.Oracle))
				}
				r.Sample = ConSample(plan.Con, plan.Sched)
				return r
			}
			p := Profiles()[prop]
			r := RunSeq(plan, p)
			r.Evals = 1
			r.NonTriv = nonTrivial(prop, r)
			r.Hash = resultHash(r)
			return r
		}
	case "C17":
		return func(plan *Plan) *RunResult {
			r := RunDiff(plan, Thorough)
			r.Hash = resultHash(r)
			return r
		}
	case "C07":
		return func(plan *Plan) *RunResult {
			r := RunFault(plan, Thorough)
			r.Hash = resultHash(r)
			return r
		}
	case "C03":
		return func(plan *Plan) *RunResult {
			r := RunCrash(plan, Thorough)
			r.Hash = resultHash(r)
			return r
		}
	}
	return func(plan *Plan) *RunResult {
		p := Profiles()[plan.Prop]
		if p == nil {
			p = Profiles()["C01"]
		}
		if plan.Prop == "C13" && plan.Index > 0 && len(plan.Ops) == 0 {
			if ops, ok := SweepOps(plan.Index-1, Thorough); ok {
				sp := &Plan{Prop: plan.Prop, Profile: plan.Profile, Seed: plan.Seed, Ops: ops}
				r := RunSeq(sp, p)
				r.Evals = 1
				r.NonTriv = true
				r.Stats.Probes["exhaustive-small-set-case"]++
				r.Hash = resultHash(r)
				return r
			}
		}
		r := RunSeq(plan, p)
		r.Evals = 1
		r.NonTriv = nonTrivial(plan.Prop, r)
		r.Hash = resultHash(r)
		return r
	}
}

func resultHash(r *RunResult) uint64 {
	h := r.Sig
	if r.World != nil {
		h = Mix(h, uint64(r.World.Env.Seq), uint64(r.Stats.Compares), uint64(r.Stats.Steps))
		for _, d := range r.World.Disks {
			h = Mix(h, uint64(len(d.Log)), uint64(len(d.Image())))
			for _, b := range d.Image() {
				h = h*1099511628211 ^ uint64(b)
			}
		}
	}
	if r.Viol != nil {
		h = Mix(h, MixStr(r.Viol.Oracle), uint64(r.Viol.Op))
	}
	return h
}

// nonTrivial implements the per-property rule behind distinct_nontrivial.
func nonTrivial(prop string, r *RunResult) bool {
	if r.World == nil {
		return false
	}
	k := countKinds(r.World.Trace)
	pr := r.Stats.Probes
	switch prop {
	case "C01":
		return (pr["overwrite"] > 0 || pr["delete-present"] > 0) && (k["flush"] > 0 || pr["evicted-something"] > 0 || k["reopen"] > 0)
	case "C02":
		return r.Stats.Flushes >= 2 && k["reopen"] > 0
	case "C04":
		return k["snapshot"] >= 2 && k["close"] >= 1 && (k["setitem"]+k["set"]+k["del"]) >= 2
	case "C06":
		return pr["visit-partial"] > 0 && (pr["evicted-something"] > 0 || k["reopen"] > 0)
	case "C08":
		return k["revert"] >= 1 && r.Stats.Flushes >= 1
	case "C09":
		return r.Stats.WritesSeen > 0 && (k["snapshot"] > 0 || k["reopen"] > 0)
	case "C10":
		return (k["snapshot"] > 0 || pr["setcoll-existing"] > 0 || pr["rmcoll-present"] > 0) && k["setitem"] >= 3
	case "C11":
		return k["copyto"] > 0 && r.Stats.Flushes > 0
	case "C12":
		return pr["setcoll-existing"] > 0 || pr["rmcoll-present"] > 0
	case "C13":
		return pr["canonical-depth-checked"] > 0 || pr["cached-nodes-checked"] > 0
	case "C14":
		return r.Stats.Decodes >= 2
	case "C15":
		return r.World.Ledger.AddRefs > 0 && r.World.Ledger.DecRefs > 0
	case "C16":
		return k["len"]+k["blockvisit"]+k["randvisit"] > 0
	case "C18":
		return k["iter"] > 0
	case "C19":
		return pr["keyonly-op-read-item-from-disk"] > 0
	}
	return r.Stats.Steps > 3
}

// Thorough selects the deeper enumeration bounds (tier).
var Thorough bool

// CompensateGetLeak: see the known finding "get-ref-leak" (C15).  Set per
// worker process from the canary's result.
var CompensateGetLeak bool

// TolerateOldVersionLeak: see the known finding "old-version-lazy-load-leak" (C15).
var TolerateOldVersionLeak bool

// TolerateEvictAbsorb: see the known finding "evict-absorbs-fault" (C07).
var TolerateEvictAbsorb bool

// Canary is a fixed scenario that triggers a known finding on purpose.
type Canary struct {
	ID   string
	Prop string
	Plan *Plan
	// Oracle expected to fire when the defect is present
	Oracle string
}

func b(s string) []byte { return []byte(s) }

// CanaryDir: directory with file-based canaries (<dir>/<prop>/<id>.json).
var CanaryDir string

type canaryFile struct {
	ID     string `json:"id"`
	Prop   string `json:"prop"`
	Oracle string `json:"oracle"`
	Plan   *Plan  `json:"plan"`
}

// Canaries lists the deliberate scenarios of a property.
func Canaries(prop string) []Canary {
	var res []Canary
	if CanaryDir != "" {
		files, _ := filepath.Glob(filepath.Join(CanaryDir, prop, "*.json"))
		sort.Strings(files)
		for _, f := range files {
			b, err := os.ReadFile(f)
			if err != nil {
				continue
			}
			var cf canaryFile
			if json.Unmarshal(b, &cf) == nil && cf.Plan != nil {
				res = append(res, Canary{ID: cf.ID, Prop: cf.Prop, Oracle: cf.Oracle, Plan: cf.Plan})
			}
		}
	}
	switch prop {
	case "C15":
		res = append(res, Canary{ID: "get-ref-leak", Prop: "C15", Oracle: "refcount-unbalanced", Plan: &Plan{Prop: "C15", Profile: "C15", Seed: 1, Ops: []Op{
			{Kind: "open", S: 0, Mem: true, CB: CBAlloc | CBRef},
			{Kind: "setcoll", S: 0, C: "c"},
			{Kind: "setitem", S: 0, C: "c", Key: b("k"), Val: &ValSpec{Tag: "v", Len: 4}, Prio: 1},
			{Kind: "get", S: 0, C: "c", Key: b("k")},
			{Kind: "releaseall", N: 1},
		}}})
		res = append(res, Canary{ID: "old-version-lazy-load-leak", Prop: "C15", Oracle: "refcount-unbalanced", Plan: &Plan{Prop: "C15", Profile: "C15", Seed: 1, Ops: []Op{
			{Kind: "open", S: 0, D: 0, CB: CBAlloc | CBRef},
			{Kind: "setcoll", S: 0, C: "c"},
			{Kind: "setitem", S: 0, C: "c", Key: b("a"), Val: &ValSpec{Tag: "v1", Len: 4}, Prio: 10},
			{Kind: "setitem", S: 0, C: "c", Key: b("b"), Val: &ValSpec{Tag: "v2", Len: 4}, Prio: 20},
			{Kind: "flush", S: 0},
			{Kind: "reopen", S: 0, N: 1, CB: CBAlloc | CBRef},
			{Kind: "snapshot", S: 0, N: 1},
			{Kind: "setitem", S: 0, C: "c", Key: b("b"), Val: &ValSpec{Tag: "v3", Len: 4}, Prio: 30},
			{Kind: "min", S: 1, C: "c", WV: true},
			{Kind: "releaseall", N: 1},
		}}})
	case "C07":
		res = append(res, Canary{ID: "exist-swallows-error", Prop: "C07", Oracle: "exist-under-fault", Plan: &Plan{Prop: "C07", Profile: "C07", Seed: 1, Ops: []Op{
			{Kind: "open", S: 0, D: 0},
			{Kind: "setcoll", S: 0, C: "c"},
			{Kind: "setitem", S: 0, C: "c", Key: b("k"), Val: &ValSpec{Tag: "v", Len: 4}, Prio: 1},
			{Kind: "flush", S: 0},
			{Kind: "reopen", S: 0},
			{Kind: "exist", S: 0, C: "c", Key: b("k"), Faults: []Fault{{Disk: 0, Kind: FReadErr, K: 1}}},
		}}})
	}
	return res
}
