#!/usr/bin/env python3
"""Confirms a seeded change delivered by a sub-agent and runs the checks against it.

  tools/seedeval.py <src_dir> <prop> <i> [--budget S] [--also C01,C02,...]

<src_dir> holds change<i>.diff, demo<i>_test.go, notes.md.  Steps, all in a scratch
worktree of /repo under /tmp (removed afterwards):
  1. the change applies, the package builds, the existing suite passes with it;
  2. the demonstration fails with the change and passes without it;
  3. the property's check (and the ones in --also) run with VERIF_REPO=<scratch>.
The result goes to /verif/seeded/<prop>-<i>/ (patch.diff, demo_test.go, notes.md, meta.json).
"""
import json, os, re, shutil, subprocess, sys, time

VERIF = os.path.dirname(os.path.dirname(os.path.abspath(__file__)))
ENV = dict(os.environ, GOFLAGS="-mod=mod", GOPROXY="off", GOSUMDB="off")


def sh(cmd, cwd=None, env=None, timeout=3600):
    p = subprocess.run(cmd, shell=True, cwd=cwd, env=env or ENV, stdout=subprocess.PIPE, stderr=subprocess.STDOUT, text=True, errors="replace", timeout=timeout)
    return p.returncode, p.stdout


def main():
    src, prop, i = sys.argv[1], sys.argv[2], sys.argv[3]
    budget = 30
    also = []
    args = sys.argv[4:]
    label = i
    for k, a in enumerate(args):
        if a == "--label":
            label = args[k + 1]
        if a == "--budget":
            budget = int(args[k + 1])
        if a == "--also":
            also = [x for x in args[k + 1].split(",") if x]
    patch = os.path.join(src, "change%s.diff" % i)
    demo = os.path.join(src, "demo%s_test.go" % i)
    scratch = "/tmp/ev_%s_%s_%d" % (prop, i, os.getpid())
    meta = {"property": prop, "source": "independent sub-agent given only the property text", "ran": []}
    rc, out = sh("git -C /repo worktree add -q -f %s HEAD" % scratch)
    try:
        rc, out = sh("git apply %s" % patch, cwd=scratch)
        meta["applies"] = rc == 0
        if rc != 0:
            print("patch does not apply:", out)
            return 1
        rc, out = sh("go build ./... && go vet -tags verif . >/dev/null 2>&1; go test -count=1 ./... 2>&1 | tail -5", cwd=scratch)
        suite_ok = "FAIL" not in out and "ok" in out
        meta["suite_passes_with_change"] = suite_ok
        meta["ran"].append("go test -count=1 ./... (with change): " + ("pass" if suite_ok else "FAIL"))
        shutil.copy(demo, os.path.join(scratch, "seeded_demo_test.go"))
        tests = re.findall(r"^func (Test\w+)\(", open(demo).read(), re.M)
        runre = "^(" + "|".join(tests) + ")$"
        rc1, out1 = sh("go test -count=1 -run '%s' . 2>&1 | tail -15" % runre, cwd=scratch, timeout=600)
        demo_fails = rc1 != 0 or "FAIL" in out1
        meta["demo_fails_with_change"] = demo_fails
        meta["demo_output_with_change"] = out1[-1500:]
        sh("git apply -R %s" % patch, cwd=scratch)
        rc2, out2 = sh("go test -count=1 -run '%s' . 2>&1 | tail -5" % runre, cwd=scratch, timeout=600)
        demo_passes = "FAIL" not in out2 and "ok" in out2
        meta["demo_passes_without_change"] = demo_passes
        meta["ran"].append("demo %s: with change %s, without change %s" % (tests, "fails" if demo_fails else "PASSES", "passes" if demo_passes else "FAILS"))
        os.remove(os.path.join(scratch, "seeded_demo_test.go"))
        sh("git apply %s" % patch, cwd=scratch)
        confirmed = suite_ok and demo_fails and demo_passes
        meta["confirmed"] = confirmed
        detected = {}
        if confirmed:
            plist = ([prop] if prop.startswith("C") else []) + [a for a in also if a != prop]
            if "ALL" in plist:
                plist = ["C%02d" % k for k in range(1, 20)]
            for p in plist:
                env = dict(ENV, VERIF_REPO=scratch, VERIF_BUDGET_S=str(budget), VERIF_SEED=os.environ.get("VERIF_SEED", "1"),
                           VERIF_EVIDENCE_DIR="/tmp/seedeval_evidence_%d" % os.getpid(), VERIF_REPLAY_DIR="/tmp/seedeval_replays_%d" % os.getpid())
                t0 = time.time()
                rc, out = sh("./check %s --tier quick" % p, cwd=VERIF, env=env, timeout=3600)
                lines = [l for l in out.splitlines() if l.startswith("violation:") or l.startswith("VIOLATION") or l.startswith("OK ") or l.startswith("INFRA")]
                detected[p] = {"exit": rc, "wall_s": round(time.time() - t0, 1), "lines": [l[:400] for l in lines[:4]]}
                meta["ran"].append("VERIF_REPO=<scratch with change> VERIF_BUDGET_S=%d ./check %s --tier quick -> exit %d" % (budget, p, rc))
                # keep the replay of the first violation as evidence
                m = re.search(r"VIOLATION property=\S+ replay=(\S+)", out)
                if m and os.path.exists(m.group(1)):
                    detected[p]["replay_saved"] = "replay-%s.json" % p
                    detected[p]["_replay_src"] = m.group(1)
        meta["checks"] = detected
        meta["detected_by"] = sorted(p for p, d in detected.items() if d["exit"] == 1)
        dst = os.path.join(VERIF, "seeded", "%s-%s" % (prop, label))
        os.makedirs(dst, exist_ok=True)
        shutil.copy(patch, os.path.join(dst, "patch.diff"))
        shutil.copy(demo, os.path.join(dst, "demo_test.go"))
        notes = os.path.join(src, "notes.md")
        if os.path.exists(notes):
            shutil.copy(notes, os.path.join(dst, "notes.md"))
        for p, d in detected.items():
            srcp = d.pop("_replay_src", None)
            if srcp:
                shutil.copy(srcp, os.path.join(dst, d["replay_saved"]))
        json.dump(meta, open(os.path.join(dst, "meta.json"), "w"), indent=1)
        print(prop, i, "confirmed" if confirmed else "NOT CONFIRMED", "detected_by", meta["detected_by"])
        for p, d in detected.items():
            print("  ", p, d["exit"], d["lines"][:1])
    finally:
        sh("git -C /repo worktree remove --force %s" % scratch)
        sh("rm -rf %s /tmp/seedeval_evidence_%d /tmp/seedeval_replays_%d" % (scratch, os.getpid(), os.getpid()))
    return 0


if __name__ == "__main__":
    sys.exit(main())
