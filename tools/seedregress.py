#!/usr/bin/env python3
"""Regression over the kept seeded changes: is every change under /verif/seeded still
detected by (one of) the check(s) recorded in its meta.json, with the harness as it is now?

  tools/seedregress.py [--budget 15] [--only C05-r2-1,...] [--out /verif/seeded/REGRESSION.json]

Each patch is applied in a scratch worktree of /repo under /tmp (removed afterwards); the
checks run with VERIF_REPO pointing there.  A change recorded as undetected is skipped.
"""
import json, os, subprocess, sys, time

VERIF = os.path.dirname(os.path.dirname(os.path.abspath(__file__)))
ENV = dict(os.environ, GOFLAGS="-mod=mod", GOPROXY="off", GOSUMDB="off")


def sh(cmd, cwd=None, env=None, timeout=1800):
    try:
        p = subprocess.run(cmd, shell=True, cwd=cwd, env=env or ENV, stdout=subprocess.PIPE, stderr=subprocess.STDOUT, text=True, errors="replace", timeout=timeout)
        return p.returncode, p.stdout
    except subprocess.TimeoutExpired:
        return -9, "timeout"


def main():
    budget, only = 15, None
    out = os.path.join(VERIF, "seeded", "REGRESSION.json")
    a = sys.argv[1:]
    for k, x in enumerate(a):
        if x == "--budget": budget = int(a[k + 1])
        if x == "--only": only = set(a[k + 1].split(","))
        if x == "--out": out = a[k + 1]
    res = {}
    ids = sorted(d for d in os.listdir(os.path.join(VERIF, "seeded")) if os.path.isdir(os.path.join(VERIF, "seeded", d)))
    for sid in ids:
        if only and sid not in only:
            continue
        d = os.path.join(VERIF, "seeded", sid)
        try:
            meta = json.load(open(os.path.join(d, "meta.json")))
        except Exception:
            continue
        det = meta.get("detected_by") or []
        if not det:
            res[sid] = {"status": "recorded-undetected"}
            continue
        own = sid.split("-")[0]
        order = ([own] if own in det else []) + [p for p in det if p != own]
        scratch = "/tmp/seedregress_%d" % os.getpid()
        sh("git -C /repo worktree remove --force %s" % scratch)
        sh("git -C /repo worktree add -q --detach %s HEAD" % scratch)
        rc, o = sh("git apply %s" % os.path.join(d, "patch.diff"), cwd=scratch)
        if rc != 0:
            res[sid] = {"status": "patch-does-not-apply"}
            sh("git -C /repo worktree remove --force %s" % scratch)
            print(sid, "PATCH DOES NOT APPLY", flush=True)
            continue
        hit = None
        tried = []
        t0 = time.time()
        for p in order[:3]:
            env = dict(ENV, VERIF_REPO=scratch, VERIF_BUDGET_S=str(budget), VERIF_EVIDENCE_DIR="/tmp/seedregress_ev", VERIF_REPLAY_DIR="/tmp/seedregress_rep")
            rc, o = sh("./check %s --tier quick" % p, cwd=VERIF, env=env)
            tried.append([p, rc])
            if rc == 1:
                hit = p
                break
        sh("git -C /repo worktree remove --force %s" % scratch)
        res[sid] = {"status": "detected" if hit else "MISSED", "by": hit, "tried": tried, "wall_s": round(time.time() - t0, 1)}
        print(sid, res[sid]["status"], hit, tried, flush=True)
        json.dump(res, open(out, "w"), indent=1, sort_keys=True)
    missed = [k for k, v in res.items() if v["status"] == "MISSED"]
    print("done: %d changes, %d detected, %d missed: %s" % (len(res), sum(1 for v in res.values() if v["status"] == "detected"), len(missed), missed))


if __name__ == "__main__":
    main()
