#!/usr/bin/env python3
"""Writes mutation/ANALYSIS.md from mutation/results.jsonl (see tools/mutsweep.py).
The classification of the undetected survivors is manual knowledge kept in this file."""
import json, re, os
from collections import Counter
VERIF = os.path.dirname(os.path.dirname(os.path.abspath(__file__)))
rs = [json.loads(l) for l in open(os.path.join(VERIF, 'mutation/results.jsonl'))]
st = Counter(r['status'] for r in rs)
surv = [r for r in rs if r['status'] == 'survives-suite']
det = [r for r in surv if r['detected_by']]
und = [r for r in surv if not r['detected_by']]
SPECIAL = {
 'collection.go:536': ('I', '`VisitItemsRandom` swallows the error of a per-block visit: the C07 histories had no block/random visits. Added; now `fault-swallowed` (C07).'),
 'collection.go:511': ('I', 'same function, first pass: caught by C07 (`fault-swallowed`) since block/random visits are in its histories.'),
 'collection.go:777': ('I', '`Collection.Write()` never releases its pin: no profile with the pin-release invariant called `Write()`. Added to C10/C15/C18; now `pin-not-released` (C10) and `refcount-unbalanced` (C15).'),
 'collection.go:264': ('H', '`Delete` returns (false|true, nil|err) wrongly when `split` fails: needs a read fault inside Delete; detected by C07 (`fault-swallowed` / `delete-result`) at the normal budget.'),
 'collection.go:263': ('H', 'reclaim marks not cleared when `split` fails inside Delete: needs a read fault, then mutations; detected by C10 (`panic`) at the normal budget.'),
 'store.go:524': ('H', 'offset/length test of a root-record candidate weakened: detected by C03 (`crash-recovery`: panic in NewStore on a junk tail) and C08 (`revert-length`) at the normal budget.'),
 'store.go:491': ('E', 'size not reset when the backward scan runs out of file: the caller keeps decrementing it to 0 (slower, same result).'),
 'node.go:114': ('E', 'the node write test: nodes check their own file location again before writing.'),
 'alloc.go:260': ('E', 'new versions start with `closed` set; the flag is cleared when a newer version is derived and only read when a version dies without successor, i.e. at close, where it is set anyway.'),
 'treap.go:227': ('E', 'priority tie broken the other way: the shape is only canonical for distinct priorities (C13), every tree is still valid.'),
 'treap.go:53': ('E', 'priority tie broken the other way (see above).'),
 'collection.go:623': ('E', 'block length one larger than needed for sizes divisible by 1024: blocks hold lenBlock+1 items, every item is still presented once.'),
 'collection.go:621': ('E', 'a different but valid block geometry at exactly 1024 items.'),
 'collection.go:619': ('E', 'an error of `Len` inside the block visits becomes "impossible block sizes": still an error.'),
 'store.go:489': ('E', 'boundary of the backward scan at a size no root record can have.'),
 'item.go:101': ('E', '`Copy(nil)` leaves the slot as it is; nodes are cleared when they are freed, so the slot is empty already.'),
 'collection.go:675': ('E', 'order check `>` vs `>=`: equal adjacent keys do not exist.'),
 'collection.go:682': ('E', 'disables the internal order check of ascending visits (never fires on a valid tree).'),
 'collection.go:679': ('E', 'return value inside the same sanity check.'),
 'collection.go:837': ('G', 'versions are chained also when only the mutator itself pins the predecessor: more chaining, same lifetime guarantees.'),
 'collection.go:873': ('E', 'the two chain fields are always set together.'),
 'alloc.go:55': ('E', 'a node already marked for an older version is re-marked for the newer one: it is reclaimed later, never earlier.'),
 'alloc.go:105': ('E', 'same, in the whole-tree marking of a closed version that died without successor.'),
 'treap.go:296': ('G', 'in-visit eviction switched off: memory only.'),
 'collection.go:320': ('G', 'eviction walk loads values: extra reads in `EvictSomeItems`, which C19 does not list among the key-only operations.'),
 'collection.go:509': ('G', 'internal scan of `VisitItemsRandom` loads values; C19 does not list it among the key-only operations.'),
 'collection.go:501': ('G', 'same.'),
 'treap.go:49': ('G', '`union` asks for the value of the item being inserted, which is in memory: no file read.'),
 'collection.go:326': ('G', 'the random direction of the eviction walk.'),
 'collection.go:332': ('G', 'eviction walk ends one node earlier.'),
 'item.go:19': ('G', 'compiles the global item-slot RWMutex in: slower, still correct.'),
 'node.go:30': ('G', 'compiles the global node-slot RWMutex in: slower, still correct.'),
 'collection.go:334': ('F', 'reference released (or not) when the eviction walk hits a read error.'),
 'collection.go:335': ('F', 'same.'),
 'collection.go:393': ('E', 'value sent on the iterator channel is never looked at (only whether the channel is open).'),
 'store.go:374': ('E', 'CopyTo goes on visiting after a failed SetItem and still returns the error.'),
 'store.go:377': ('B', 'statistic used only by a disabled debug print.'),
 'store.go:58': ('C', '`casColl` result on the CAS retry path of SetCollection / RemoveCollection.'),
 'store.go:170': ('C', 'handle closed on the CAS retry path of SetCollection.'),
 'collection.go:270': ('C', '"concurrent delete" branch of Delete.'),
 'collection.go:271': ('C', '"concurrent delete" branch of Delete.'),
 'collection.go:289': ('C', '"concurrent mutation" branch of Delete.'),
 'item.go:219': ('C', 'reference released after a lost item CAS.'),
 'collection.go:840': ('E', 'internal sanity panic in rootCAS.'),
 'collection.go:597': ('E', 'internal sanity panic ("impossible").'),
 'alloc.go:272': ('E', 'internal sanity panic ("double free").'),
 'alloc.go:176': ('E', '`n == nil` guard of an internal helper that is never called with nil.'),
 'alloc.go:54': ('E', 'same kind of guard.'),
 'collection.go:809': ('E', 'the walk now also descends into persisted (cached) subtrees; items and nodes check their own file location before writing, so nothing is written twice: time only.'),
 'collection.go:792': ('E', 'same.'),
 'collection.go:484': ('E', '"impossible block sizes" sanity check.'),
 'collection.go:561': ('E', '"impossible block sizes" sanity check.'),
 'treap.go:156': ('E', '`c < 0` vs `c <= 0` after `c == 0` was handled.'),
 'store.go:528': ('E', '(ok, err) result whose ok is ignored when err is set.'),
 'treap.go:299': ('E', '(keepGoing, err) result whose first part is ignored when err is set.'),
 'treap.go:315': ('E', 'same.'),
 'treap.go:345': ('E', 'same.'),
 'store.go:396': ('B', 'enables a debug print.'),
 'store.go:397': ('B', 'debug print.'),
 'item.go:169': ('E', 'an item record of exactly header length would have an empty key, which cannot be stored.'),
 'collection.go:842': ('E', 'internal sanity panic in rootCAS.'),
 'store.go:282': ('B', 'one of the simulator\'s own schedule points removed (the mutation operator does not know them all by name).'),
}
def classify(r):
    old = r['old'].strip(); f = r['file']; op = r['op']; key = '%s:%d' % (f, r['line'])
    if key in SPECIAL: return SPECIAL[key]
    if op == 'delete-call' and re.search(r'free(Node|NodeLoc|RootNodeLoc)\(', old): return ('A', '')
    if f == 'alloc.go' and r['line'] == 268: return ('A', '`freeRootNodeLoc` returns at once: nothing goes back to that pool.')
    if f == 'node.go' and ('dump' in old or r['line'] >= 200): return ('B', '')
    if 'fmt.Print' in old or 'Errorf' in old: return ('B', 'text of an error message / debug print')
    if op == 'delete-call' and 'ItemDecRef' in old and f == 'item.go': return ('F', 'reference of a half-read item when the file read (or AfterItemRead) fails.')
    if op == 'swallow-error' and f in ('store.go', 'node.go'): return ('D', '')
    if f == 'item.go' and r['line'] in (126, 214): return ('F', 'error returned by BeforeItemWrite / AfterItemRead: the harness\'s callbacks are neutral and never fail.')
    if re.search(r'err != nil (\|\||&&) n\.isEmpty\(\)', old) or re.search(r'\.isEmpty\(\) \|\| \w+ == nil', old): return ('E', 'the conditions imply each other (a failed or empty read yields a nil node).')
    return ('?', '')
NAMES = {'A': 'pool return removed (a node / nodeLoc / rootNodeLoc is not put back on its free list): memory only, nothing observable',
 'B': 'debug or diagnostic code (Dump, disabled prints, wording of error messages)',
 'C': 'code that needs two mutating goroutines (CAS retry paths, "concurrent mutation" branches): outside the one-mutator contract all properties assume',
 'D': 'errors that cannot occur (binary.Read/Write on an in-memory buffer, populateDiskStruct, json.Marshal of the roots map)',
 'E': 'behaviour-preserving for every property (implied conditions, internal sanity checks, valid alternative geometry)',
 'F': 'paths reached only when a file read or a callback fails *and* whose effect is a leaked item reference: C15 quantifies over fault-free histories, C07 does not speak of references; the harness\'s callbacks never fail',
 'G': 'performance or memory behaviour only',
 'H': 'detected when re-run at the normal quick budget (16 workers x 20 s instead of 1 x 6 s)',
 'I': 'genuine blind spot: led to a change of the harness'}
rows = [(classify(r), r) for r in und]
cats = Counter(c for (c, _), _ in rows)
out = ['# Mechanical mutation sweep: analysis\n',
 '`tools/mutsweep.py --seed 1 --budget 6 --par 8` in two batches (400 + the rest), /repo at d3aca8d (before fix F17), harness as of rounds 6-8 (the sweep ran beside other work and the harness changed underneath it; each change it caused is listed under I). Regenerate with `tools/mutanalyse.py`.\n',
 '* mutants tried: %d of 639 candidates\n* did not compile: %d\n* killed by the repository\'s own test suite: %d\n* **survived the suite: %d**, of which **detected by at least one check at the sweep\'s small budget (1 worker, 6 s per check): %d**\n* undetected at that budget: %d, all classified below (%d unclassified); %d runs had exit 2 for some check (library-goroutine panic before DESIGN 10.13) while other checks detected them.\n' % (len(rs), st['does-not-compile'], st['killed-by-suite'], len(surv), len(det), len(und), cats['?'], sum(1 for r in surv if r['trouble']))]
bycheck = Counter()
for r in det:
    for p in r['detected_by']: bycheck[p] += 1
out.append('Detections per check (a mutant may be caught by several): ' + ', '.join('%s %d' % kv for kv in sorted(bycheck.items())) + '\n')
out.append('## The %d undetected survivors by category\n' % len(und))
for c in 'IHABCDEFG?':
    rr = [(r, n) for (cc, n), r in rows if cc == c]
    if not rr: continue
    out.append('### %s. %s (%d)\n' % (c, NAMES.get(c, 'UNCLASSIFIED'), len(rr)))
    for r, n in rr:
        out.append('* `%s:%d` %s: `%s` -> `%s`%s' % (r['file'], r['line'], r['op'], r['old'].strip()[:90], r['new'].strip()[:70], (' -- ' + n) if n else ''))
    out.append('')
open(os.path.join(VERIF, 'mutation/ANALYSIS.md'), 'w').write('\n'.join(out) + '\n')
print(len(rs), dict(st), 'survivors', len(surv), 'detected', len(det), 'undetected', len(und), dict(cats))
for (c, n), r in rows:
    if c == '?': print('UNCLASSIFIED %s:%d:%s | %s => %s' % (r['file'], r['line'], r['op'], r['old'].strip()[:100], r['new'].strip()[:80]))
