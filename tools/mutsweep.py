#!/usr/bin/env python3
"""Mechanical mutation sweep: how many small syntactic changes to gkvlite that the
repository's own test suite does NOT notice do the checks of /verif notice?

  tools/mutsweep.py --n 200 --seed 1 [--budget 6] [--out /verif/mutation/results.jsonl]

For each sampled mutant (one token or one statement changed in a non-test .go file of the
root package), in a scratch worktree of /repo under /tmp (removed afterwards):
  1. go build; go test -count=1 . (root package).  Killed by the compiler or by the suite: skipped.
  2. every check of MANIFEST.json at the quick tier, 1 worker, `budget` seconds, in parallel.
The result line records which checks reported a VIOLATION (exit 1), which said OK, and which
had trouble (exit 2 / timeout).  Nothing is ever written to /repo.
"""
import json, os, random, re, subprocess, sys, time, shutil, concurrent.futures as cf

VERIF = os.path.dirname(os.path.dirname(os.path.abspath(__file__)))
REPO = "/repo"
ENV = dict(os.environ, GOFLAGS="-mod=mod", GOPROXY="off", GOSUMDB="off")
FILES = ["alloc.go", "collection.go", "item.go", "node.go", "store.go", "treap.go"]

REL = [("<=", "<"), (">=", ">"), ("==", "!="), ("!=", "=="), (" < ", " <= "), (" > ", " >= "), ("&&", "||"), ("||", "&&")]


def candidates():
    res = []
    for f in FILES:
        lines = open(os.path.join(REPO, f)).read().split("\n")
        for i, ln in enumerate(lines):
            s = ln.strip()
            if not s or s.startswith("//") or "verifYield" in s:
                continue
            code = ln.split("//")[0]
            if re.search(r"\b(if|for|return)\b", code) or "&&" in code or "||" in code:
                for a, b in REL:
                    for m in re.finditer(re.escape(a), code):
                        # do not split <= / >= / == when mutating < / >
                        new = code[:m.start()] + b + code[m.end():]
                        res.append((f, i, "rel %s->%s" % (a.strip(), b.strip()), new))
            for a, b in ((" + 1", " + 2"), (" - 1", " - 0"), ("+1", "+0"), ("-1", "-0")):
                if a in code and "[" not in code.split(a)[0][-3:]:
                    res.append((f, i, "arith %s->%s" % (a.strip(), b.strip()), code.replace(a, b, 1)))
            if re.match(r"^\s*(defer\s+)?[A-Za-z_][\w.]*(\([^()]*\))?\.?[\w.]*\(.*\)\s*$", code) and ".Lock()" not in code and ".Unlock()" not in code and "RLock" not in code and "RUnlock" not in code:
                res.append((f, i, "delete-call", re.match(r"^\s*", code).group(0) + "_ = 0"))
            if re.match(r"^\s*return (nil, |false, |0, 0, |ok, )?err\s*$", code):
                res.append((f, i, "swallow-error", code.replace("err", "nil")))
            if re.search(r"\btrue\b", code) and "for" not in code:
                res.append((f, i, "true->false", re.sub(r"\btrue\b", "false", code, count=1)))
            if re.search(r"\bfalse\b", code):
                res.append((f, i, "false->true", re.sub(r"\bfalse\b", "true", code, count=1)))
    return res


def sh(cmd, cwd=None, timeout=600, env=None):
    try:
        p = subprocess.run(cmd, shell=True, cwd=cwd, env=env or ENV, stdout=subprocess.PIPE, stderr=subprocess.STDOUT, text=True, errors="replace", timeout=timeout)
        return p.returncode, p.stdout
    except subprocess.TimeoutExpired:
        return -9, "timeout"


def run_check(prop, scratch, budget, tmp):
    env = dict(ENV, VERIF_REPO=scratch, VERIF_WORKERS="1", VERIF_BUDGET_S=str(budget),
               VERIF_REPLAY_DIR=os.path.join(tmp, "rep_" + prop), VERIF_EVIDENCE_DIR=os.path.join(tmp, "ev_" + prop))
    rc, out = sh("./check %s --tier quick" % prop, cwd=VERIF, timeout=420, env=env)
    first = ""
    for ln in out.split("\n"):
        if ln.startswith("violation:"):
            first = ln[:300]
            break
    return prop, rc, first


def main():
    args = sys.argv[1:]
    n, seed, budget = 100, 1, 6
    out = os.path.join(VERIF, "mutation", "results.jsonl")
    par = 10
    for k, a in enumerate(args):
        if a == "--n": n = int(args[k + 1])
        if a == "--seed": seed = int(args[k + 1])
        if a == "--budget": budget = int(args[k + 1])
        if a == "--out": out = args[k + 1]
        if a == "--par": par = int(args[k + 1])
    os.makedirs(os.path.dirname(out), exist_ok=True)
    props = [c["property_id"] for c in json.load(open(os.path.join(VERIF, "MANIFEST.json")))["checks"]]
    cands = candidates()
    rnd = random.Random(seed)
    rnd.shuffle(cands)
    done = set()
    if os.path.exists(out):
        for ln in open(out):
            try:
                r = json.loads(ln)
                done.add((r["file"], r["line"], r["op"], r["new"]))
            except Exception:
                pass
    head = subprocess.run(["git", "-C", REPO, "rev-parse", "HEAD"], stdout=subprocess.PIPE, text=True).stdout.strip()
    print("candidates:", len(cands), "already done:", len(done), "repo HEAD", head[:8], flush=True)
    tried = 0
    for f, i, op, new in cands:
        if tried >= n:
            break
        if (f, i + 1, op, new) in done:
            continue
        tried += 1
        scratch = "/tmp/mutsweep_%d" % os.getpid()
        tmp = "/tmp/mutsweep_tmp_%d" % os.getpid()
        shutil.rmtree(tmp, ignore_errors=True)
        os.makedirs(tmp)
        sh("git -C %s worktree remove --force %s" % (REPO, scratch))
        sh("git -C %s worktree add -q --detach %s HEAD" % (REPO, scratch))
        rec = {"file": f, "line": i + 1, "op": op, "new": new, "head": head}
        try:
            p = os.path.join(scratch, f)
            lines = open(p).read().split("\n")
            rec["old"] = lines[i]
            lines[i] = new
            open(p, "w").write("\n".join(lines))
            rc, o = sh("go build ./... && go vet -tags verif . 2>&1 | grep -v '^#' | head -3", cwd=scratch, timeout=300)
            if rc != 0 or "vet:" in o or "declared and not used" in o or "imported and not used" in o:
                rec["status"] = "does-not-compile"
            else:
                rc, o = sh("TMPDIR=%s go test -count=1 -timeout 120s . 2>&1 | tail -3" % tmp, cwd=scratch, timeout=300)
                if rc != 0 or "FAIL" in o or "ok" not in o:
                    rec["status"] = "killed-by-suite"
                else:
                    rec["status"] = "survives-suite"
                    t0 = time.time()
                    with cf.ThreadPoolExecutor(max_workers=par) as ex:
                        rs = list(ex.map(lambda pr: run_check(pr, scratch, budget, tmp), props))
                    rec["detected_by"] = [pr for pr, rc, _ in rs if rc == 1]
                    rec["trouble"] = [pr for pr, rc, _ in rs if rc not in (0, 1)]
                    rec["first"] = {pr: fi for pr, rc, fi in rs if rc == 1 and fi}
                    rec["wall_s"] = round(time.time() - t0, 1)
        finally:
            sh("git -C %s worktree remove --force %s" % (REPO, scratch))
            shutil.rmtree(tmp, ignore_errors=True)
        with open(out, "a") as fo:
            fo.write(json.dumps(rec) + "\n")
        print(tried, f, i + 1, op, rec["status"], rec.get("detected_by"), rec.get("trouble"), flush=True)


if __name__ == "__main__":
    main()
