# Per-property metadata used by ./check (evidence files) and mkmanifest.py.

COMPONENTS = {
    "real": ["the whole gkvlite package built from /repo's working tree with -tags verif",
             "encoding/json, sync, the Go runtime (it never chooses: at most one goroutine is runnable)"],
    "simulated": ["the file: SimDisk, an in-memory image with op log, fault plan and park points (os.File is never used)",
                  "the callers: generated operation histories / scheduled tasks",
                  "StoreCallbacks, KeyCompare and visitors: supplied by the harness",
                  "math/rand seed and the package-global free lists: reset per run"],
    "not_present_in_codebase": ["network, clocks, timers: gkvlite has none, so none is simulated"],
}

SEQ_ASSUME = [
    "sequential engine: one logical caller; interleavings are not explored here (C05/C18 do that)",
    "the reference model (sorted map per collection, flush stack per file) and the independent decoder are trusted",
    "a clean batch is evidence, not proof: histories are sampled by a seeded generator",
]

DISTINCT = " Distinct = distinct hash of the operation-kind sequence (with visit variants, fault and crash placement)."


def seq(rule, text, **kw):
    d = {"level": "exploration", "rule": rule + DISTINCT, "level_text": text, "assumptions": SEQ_ASSUME, "engine": "seqsim", "ready": True}
    d.update(kw)
    return d


PROPS = {
    "C01": seq(
        "seeded histories of Set/SetItem/Delete/Get/GetItem/Exist/Min/Max/GetTotals over 1-4 collections with Flush, EvictSomeItems, "
        "re-open and rejected inputs at random positions, file-backed and memory-only, all callback subsets and comparators; every "
        "return value is compared with a sorted-map model and every key ever used is looked up in audits. Non-trivial: the run "
        "overwrote or deleted a present key AND had a flush, an eviction that evicted something, or a re-open.",
        "seeded exploration of operation histories and cache states (cached / evicted / never loaded / unpersisted) against a sorted-map model, step by step"),
    "C02": seq(
        "seeded histories of mutations and collection creation/removal with Flush and re-open anywhere (also twice in a row); after "
        "every flush and re-open the store through a fresh NewStore and the independent decoder must both equal the model's state at "
        "the last successful flush. Non-trivial: >=2 flushes and >=1 re-open.",
        "seeded exploration of flush/re-open placements; two independent readers (NewStore, decoder) against the model's last flushed state"),
    "C04": seq(
        "seeded histories that create snapshots (also of snapshots), keep up to 5 open and interleave mutations, flushes, evictions, "
        "collection removal/replacement and Close on the original with reads, refused writes, FlushRevert and Close on the snapshots, "
        "with nested operations inside visitors; every open handle is audited against its frozen model; writes through snapshots are "
        "caught by the write monitor. Non-trivial: >=2 snapshots, >=1 snapshot closed, >=2 mutations.",
        "seeded exploration of snapshot lifetimes against a frozen model per snapshot, all handles audited"),
    "C06": seq(
        "seeded histories reaching all cache states, then range visits (plain, Ex, iterator) with targets present / in gaps / below "
        "minimum / above maximum / empty / nil, both value modes, early stops, four comparators; exact (key, priority, value, depth) "
        "sequence against the model, depth against the canonical treap when priorities are distinct and never lowered. Non-trivial: "
        "a partial visit (absent target or early stop) on a tree with evicted or never-loaded items.",
        "seeded exploration of targets x stops x comparators x cache states against model ranges"),
    "C08": seq(
        "seeded histories with 0..many flushes across re-opens and unflushed work, then runs of consecutive FlushReverts including "
        "past the first flush and on empty files, new flushes after reverts, memory-only stores; the store, the file length, a "
        "re-open and the decoder must equal the model's flush stack; termination by I/O budget and watchdog. Non-trivial: >=1 revert after >=1 flush.",
        "seeded exploration of flush/revert stacks against the model's stack of flushed states, with bounded-step termination"),
    "C09": seq(
        "all operation kinds (incl. snapshots, CopyTo, Collection.Write, FlushRevert, read-only file handles) with an invariant monitor "
        "on every individual WriteAt/Truncate: writes only from Flush/Write/CopyTo-destination and never below the last durable root "
        "record, truncation only by FlushRevert of the writable store to the end of a root record or 0. Non-trivial: the monitor saw "
        "writes and the run had a snapshot or re-open.",
        "invariant monitor over the SimDisk log in seeded histories; the static 'for all call paths' part of the quantifier is not decided by this technique"),
    "C10": seq(
        "1-3 stores sharing the process-wide free lists, snapshots opened/closed in any order, in-flight visits with nested mutating "
        "sub-programs, SetCollection on existing names, RemoveCollection, Close, each followed by allocation bursts; every open handle "
        "audited; hooked oracle: no node reachable from an open handle is on the free list. Non-trivial: a snapshot or a "
        "replaced/removed collection plus >=3 inserts.",
        "seeded exploration of version acquire/release orders across stores sharing free lists; public audits plus hooked freed-but-reachable check"),
    "C11": seq(
        "source states from histories (several collections, empty ones, custom comparators; writable store, snapshot, snapshot of "
        "snapshot, freshly re-opened) x flushEvery in {<=0,1,2,3,n-1,n,n+1,10n+1,random}; destination equals the source model through "
        "the returned store, a re-open and the decoder; compactness from all root records of the destination; source file and "
        "contents untouched. Non-trivial: a CopyTo on a source that had been flushed.",
        "seeded exploration of source histories x flushEvery values; model equality, decoder, compaction accounting, source write log"),
    "C12": seq(
        "histories interleaving SetCollection (new/existing names), RemoveCollection (present/absent), remove-then-recreate, "
        "GetCollection, GetCollectionNames and item mutations with flushes and re-opens; names and contents against the model, other "
        "handles audited. Non-trivial: SetCollection on an existing name or removal of a present one.",
        "seeded exploration of collection-management histories against the model's name map"),
    "C13": seq(
        "small key sets (2-7 keys, 60% of runs) and longer histories with distinct / random / tied priorities; after each audit the "
        "(key, priority, depth) sequence must describe a binary search tree, heap-ordered unless a key was overwritten lower, with "
        "canonical depths for distinct priorities; hooked: every cached node's aggregates are locally exact; persisted: the decoder "
        "re-checks aggregates and order after every flush. Sampled, not exhaustive. Non-trivial: canonical depths or cached aggregates were checked.",
        "seeded sampling of small key/priority sets and histories; canonical-treap, aggregate and decoder oracles (the exhaustive quantifier is sampled, not enumerated)"),
    "C14": seq(
        "histories over all key/value sizes (0 bytes to >64 KiB), name sets with JSON-escaped and multi-byte names, all callback "
        "subsets; after every flush, CopyTo and re-open the independent decoder must rebuild the model's flushed state from the last "
        "root record and every reachable record must satisfy the structural clauses of the v4 layout. Non-trivial: >=2 decodes.",
        "independent v4 decoder as executable layout statement, run on every flushed image of seeded histories"),
    "C15": seq(
        "histories with ItemAlloc/ItemAddRef/ItemDecRef installed over all operation kinds (visits, Len, block visits, iterators, "
        "evictions, flushes, re-opens, snapshots, RemoveCollection, closes in random order); ledger: no count below zero, positive "
        "for items handed out or cached in an open tree (hook), zero after everything is closed and the harness dropped its own "
        "references. Non-trivial: the run saw AddRef and DecRef calls.",
        "seeded exploration with a reference-count ledger; two known findings are excused narrowly (see known_findings.jsonl)"),
    "C16": seq(
        "collections built to an exact size (0..80, 81..700, and 1023..3073 around the block-count limits), memory and file-backed "
        "(flushed, evicted, re-opened), then Len, VisitItemsAscendBlockEx under identity/reverse/rotation/seeded-shuffle manglers and "
        "VisitItemsRandom under the seeded math/rand; key multiset must equal the model's, Len its count. Non-trivial: any enumeration ran.",
        "seeded size sweep x block orders x cache states; multiset equality with the model"),
    "C18": seq(
        "iterators with Next/Close scripts (never Next, stop after j, Close twice, Next after Close/exhaustion) ascending and descending, "
        "nested API calls inside visitors and between Next calls to depth 3; Next after end is false, delivered items are the model's "
        "prefix, and at the end of the run (synctest bubble) no goroutine started by gkvlite is left blocked. Non-trivial: an iterator ran.",
        "seeded exploration of iterator scripts and re-entrant visitors; leak detection by quiescence of the synctest bubble"),
    "C19": seq(
        "histories with evictions, flushes and re-opens; every individual ReadAt issued by a key-only operation is checked against the "
        "value byte ranges of all item records the decoder finds, and every ReadAt of NewStore on an image ending in a root record "
        "against that record's range. Non-trivial: a key-only operation actually read an item header from disk.",
        "read-range oracle on every ReadAt of seeded histories, ranges from the independent decoder"),
}

PROPS["C03"] = seq(
    "histories (mutations, collection management, Flush, Collection.Write, FlushRevert, values containing magic markers, copies of real "
    "root records and near-miss forged root records) are sampled; inside each history the crash points are ENUMERATED from the SimDisk "
    "write log: every boundary between image-changing calls, torn lengths of the call in flight (thorough: every byte for files <= 16 KiB, "
    "else boundaries +-3 and a sample; quick: a handful per write), each also with adversarial junk tails (random bytes, doubled magics, "
    "torn copy of an earlier root record, relocated complete copy); each surviving image is opened by the real NewStore and by the "
    "independent decoder and must equal the last flush whose root record lies completely inside the prefix; sampled crash points are "
    "continued (mutations, flush, re-open, a second crash). evaluations = crash images opened + continuations. Non-trivial history: >=2 "
    "flush-stack changes and a torn write above a completed flush.",
    "fault enumeration: crash points and torn lengths enumerated inside seeded histories; recovery checked by two independent readers against the model",
    level="fault_enumeration")
PROPS["C07"] = seq(
    "histories are sampled and first run fault-free recording the StoreFile calls of every operation; then ONE fault is placed at every "
    "individual ReadAt/WriteAt/Stat/Truncate call (k = 1..all) of every error-reporting operation (open, lookups, visits, iterators, "
    "Set/Delete, Flush, FlushRevert, CopyTo source and destination, Collection.Write): read_error, read_short, write_error, write_torn "
    "(thorough: every length up to 128 bytes), stat_error, truncate_error, some sticky; quick takes a stratified seeded sample of 60 "
    "placements per history, thorough all; plus runs with 2-3 faults. Each placement re-executes the history: the faulted call must "
    "return an error, an audit right after must equal the unchanged model, the decoder must still read the last flushed state, the "
    "history continues exactly and ends with flush / re-open / audit. evaluations = fault placements executed. Non-trivial: a history "
    "with >5 operations whose placements ran.",
    "fault enumeration: one fault at every StoreFile call of every operation of seeded histories; error returned, model unchanged, durable states intact, history continues exactly",
    level="fault_enumeration")

CON_ASSUME = [
    "interleavings are explored at park-point granularity (every StoreFile call, key comparison, callback, visitor call, ~20 guarded hook sites, acquisitions of rootLock and the three free-list locks, operation boundaries) under sequential consistency; data races that need a torn or reordered memory access are out of reach",
    "roles follow the README: one mutator, one flusher, N readers per store; the collection set is fixed during the concurrent phase",
    "the scheduler serialises goroutines, so Go's race detector is not part of this check",
    "a clean batch is evidence, not proof: schedules are sampled by a seeded scheduler",
]

PROPS["C05"] = {
    "level": "exploration", "engine": "consim", "ready": True, "assumptions": CON_ASSUME,
    "rule": "per run: one store (file-backed over SimDisk, or memory-only), 1-3 collections with prefix-colliding names, pre-loaded and flushed / "
            "evicted / freshly re-opened; tasks: 1 mutator (6-36 Set/SetItem/Delete/EvictSomeItems), 0-1 flusher (1-5 Flushes), 1-4 readers "
            "(Get, GetItem, Exist, Min/Max, totals, AllocStats, full and partial visits both directions, iterators, Snapshot + reads + "
            "CopyTo of the snapshot to a fresh disk + Close); every "
            "goroutine runs under a token-passing scheduler inside a testing/synctest bubble, the next goroutine to run is drawn from the "
            "run's PRNG with per-run task weights, stickiness and armed park-point subsets; gkvlite's root lock and free-list locks are "
            "scheduler objects (a goroutine wanting a held lock stays parked; nothing eligible = lock cycle = deadlock). Oracles on the recorded history: every read "
            "equals ONE version current in its [invoke,return] window (whole visits exactly); snapshots one version per collection "
            "consistent over all their reads; no panic, deadlock, error or lost update (final quiescent audit); every concurrent Flush "
            "decodes (decoder and NewStore agree) and its per-collection contents admit capture instants t1<=t2<=... in name order inside the "
            "flush window; sampled crash images; pins released; porcupine on the per-key sub-history as second opinion (outside the "
            "bubble). Non-trivial: >=1 read whose window spans a publication. Distinct = distinct (task operation kinds, released-task "
            "sequence) hash, i.e. distinct interleavings.",
    "level_text": "seeded search over schedules of real goroutines serialised by a deterministic scheduler; history checked against a sorted-map version log (exact single-writer linearizability) plus porcupine",
    "technique": "deterministic simulation: token-passing scheduler over real goroutines in a synctest bubble, seeded schedules, history checking (version windows, porcupine), simulated disk",
}

PROPS["C17"] = seq(
    "each generated history (lookups, visits, iterators, mutations, flushes, re-opens, collection management, CopyTo) is executed "
    "twice from the same concrete trace: without callbacks and with a subset of the 8 neutral callbacks (30% single callbacks, else a "
    "random mask; chunk sizes 1-9); both executions are judged against the model on every operation, and the files must decode to "
    "the same state and satisfy the layout (byte equality is recorded as a probe). evaluations = executions. Non-trivial: a flush "
    "happened and the mask was not empty. Distinct = distinct (operation-kind sequence, mask).",
    "differential seeded exploration over callback configurations x histories")

PROPS["C18"]["engine"] = "consim"
PROPS["C18"]["assumptions"] = CON_ASSUME + SEQ_ASSUME[1:2]
PROPS["C18"]["rule"] = ("half of the runs use the sequential engine: iterators with Next/Close scripts (never Next, stop after j, Close twice, Next "
    "after Close/exhaustion) ascending and descending and nested API calls inside visitors and between Next calls to depth 3; the other "
    "half use the scheduled engine: 1-3 consumer tasks (the mutator being one of them in 60% of the runs, mutating between Next calls and "
    "after Close while the producer is still unwinding) plus an independent mutator, every goroutine including gkvlite's iterator "
    "producers under the seeded scheduler with hook park points after each producer wake-up, in the visit unwinding and in the drain. "
    "Oracles: Next after Close/exhaustion is false, delivered items are a prefix of one version current in the window, exhaustion only "
    "when a version has exactly those items, no deadlock (quiescence with unfinished tasks), no goroutine left blocked at the end of the "
    "synctest bubble, every collection's current version referenced exactly once afterwards (pin released, hook). Non-trivial: an "
    "iterator ran (sequential) / >2 context switches (scheduled)." + DISTINCT)
PROPS["C18"]["level_text"] = "seeded exploration of iterator scripts, re-entrant visitors and consumer/producer interleavings; liveness as quiescence with nothing blocked"
PROPS["C18"]["technique"] = PROPS["C05"]["technique"]
