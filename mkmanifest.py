#!/usr/bin/env python3
"""Regenerates MANIFEST.json from propmeta.py (single source of truth)."""
import json, os, subprocess, sys
VERIF = os.path.dirname(os.path.abspath(__file__))
sys.path.insert(0, VERIF)
import propmeta

hooks_commits = subprocess.run(["git", "-C", "/repo", "log", "--format=%H %s"], stdout=subprocess.PIPE, text=True).stdout.splitlines()
hook_shas = [l.split()[0] for l in hooks_commits if l.split(" ", 1)[1].startswith("verif hooks")]

checks = []
na = []
for pid in sorted(propmeta.PROPS):
    m = propmeta.PROPS[pid]
    if not m.get("ready"):
        na.append({"property_id": pid, "reason": m.get("na_reason", "check under construction in this round; not claimed yet")})
        continue
    checks.append({
        "property_id": pid,
        "quick_cmd": "./check %s --tier quick" % pid,
        "thorough_cmd": "./check %s --tier thorough" % pid,
        "evidence_file": "/verif/evidence/%s.json" % pid,
        "replay_cmd_template": "./check replay {path}",
        "engine": m.get("engine", "seqsim"),
        "level_claimed": {"category": m["level"], "text": m["level_text"], "design_ref": "DESIGN.md section 5, " + pid},
        "level_note": m.get("level_note", "trusted: the reference model, the independent decoder, SimDisk; seeded sampling, not exhaustive"),
        "technique": m.get("technique", "deterministic simulation with fault injection: seeded search over operation histories on a simulated disk, checked against a reference model"),
    })

manifest = {
    "version": 1,
    "setup_cmd": "./check build",
    "hooks": {
        "guard": "verif",
        "enable": "go1.26.8 test -c -tags verif -overlay <generated> (the harness module /verif/sim replaces github.com/cbehopkins/gkvlite with /repo's working tree; the overlay, built by ./check from that working tree on every invocation, only spells the type sync.Mutex as verifMutex in the package's non-test files so that lock events reach VerifLockHook; /repo itself is not modified)",
        "baseline_off_cmd": "cd /repo && GOFLAGS=-mod=mod GOPROXY=off go test -json -vet=off -count=1 -timeout 25m ./...",
        "source_commits": hook_shas,
        "add_only": True,
    },
    "engines": [
        {"name": "seqsim", "path": "/verif/sim", "serves_properties": [c["property_id"] for c in checks if c["engine"] == "seqsim"],
         "kind_free_text": "sequential-history deterministic simulator: generated operation traces over SimDisk (faults, crashes, torn writes), reference model, independent decoder, in-process minimiser"},
        {"name": "consim", "path": "/verif/sim", "serves_properties": [c["property_id"] for c in checks if c["engine"] == "consim"],
         "kind_free_text": "concurrent deterministic simulator: real goroutines in a testing/synctest bubble, token-passing scheduler driven by one PRNG, history checkers"},
    ],
    "checks": checks,
    "not_applicable": na,
    "notes": "All checks rebuild the simulator against /repo's working tree with -tags verif on every invocation. VERIF_SEED, VERIF_TIER, VERIF_BUDGET_S (seconds per worker) and VERIF_WORKERS are honoured. Exit 2 = infrastructure trouble, never reported as a violation.",
}
json.dump(manifest, open(os.path.join(VERIF, "MANIFEST.json"), "w"), indent=1)
print("checks:", [c["property_id"] for c in checks], "not_applicable:", [n["property_id"] for n in na])
